"""Drives the real RealTimeTradesToBar.main() under virtual time and the real CSV bar sources on generated files."""
from __future__ import annotations

import asyncio
import datetime
import logging
import os
from decimal import Decimal
from typing import List

from . import vloop

UTC = datetime.timezone.utc


def offsets(W: int, dur_us: int) -> List[int]:
    """microsecond offset of every tick position of a window: first instant, interior, around the last millisecond,
    last instant."""
    assert W >= 5 and dur_us >= 4000
    tail = [dur_us - 1001, dur_us - 1000, dur_us - 500, dur_us - 1]       # positions W-4 .. W-1
    n_int = W - 5
    interior = [round((k + 1) * (dur_us - 1001) / (n_int + 1)) for k in range(n_int)]
    return [0] + interior + tail


def run_trades(script: dict) -> dict:
    """script: {W, delay, skipFirst, start, duration_s, pushes:[{at,w,p,a}], maxnow}  (ticks) -> history H in ticks."""
    import basana.core.bar as bsbar
    from basana.core.pair import Pair

    W, D = script["W"], script["duration_s"]
    dur_us = D * 10**6
    off = offsets(W, dur_us)
    inv = {o: i for i, o in enumerate(off)}

    def to_us(tick: int) -> int:
        return (tick // W) * dur_us + off[tick % W]

    def to_tick(us: int):
        k, r = divmod(us, dur_us)
        return k * W + inv[r] if r in inv else None

    delay_ticks = script["delay"]
    flush_delay = 0.0 if delay_ticks == 0 else (off[delay_ticks - 1] + 1) / 1e6
    pushes_out, bars_out, errors = [], [], []
    state = {"nflushed": 0}

    async def scenario(loop):
        logging.disable(logging.CRITICAL)
        await vloop.sleep_until(loop, to_us(script["start"]) / 1e6)
        agg = bsbar.RealTimeTradesToBar(Pair("BTC", "USD"), D, skip_first_bar=script["skipFirst"], flush_delay=flush_delay)
        orig_push, orig_flush = agg.push, agg._flush

        def push(ev):          # observation point: when a bar event becomes available to the dispatcher
            bars_out.append((ev, round(loop.time() * 1e6)))
            orig_push(ev)

        def flush(begin, end):  # counts the flushes main() performs (to know which windows were closed at a push)
            orig_flush(begin, end)
            state["nflushed"] += 1
        agg.push, agg._flush = push, flush
        agg.on_error = lambda e: errors.append(str(e))
        task = asyncio.create_task(agg.main())
        for i, p in enumerate(script["pushes"], start=1):
            await vloop.sleep_until(loop, (to_us(p["at"]) + 0.3) / 1e6)
            before = len(agg._trades) if hasattr(agg, "_trades") else 0
            nerr = len(errors)
            when = vloop.EPOCH + datetime.timedelta(microseconds=to_us(p["w"]))
            agg.push_trade(when, Decimal(p["p"]), Decimal(p["a"]) * (1 << (i - 1)))
            pushes_out.append({"id": i, "at": p["at"], "w": p["w"], "p": p["p"], "a": p["a"],
                               "accepted": len(errors) == nerr, "flushedK": state["nflushed"]})
        await vloop.sleep_until(loop, (to_us(script["maxnow"]) + 0.6) / 1e6)
        task.cancel()
        try:
            await task
        except BaseException:  # noqa: BLE001
            pass
        logging.disable(logging.NOTSET)
        return None
    livelock = False
    try:
        with vloop.wall_clock_limit(4) as limit:
            vloop.run(scenario, max_iters=20000)    # a trade-stream scenario needs a few dozen iterations and milliseconds
        livelock = limit.fired
    except vloop.Livelock:
        livelock = True            # main() spins without ever sleeping: no bar is emitted at the end of its window any more
    bars, offgrid = [], []
    for ev, at_us in bars_out:
        b = ev.bar
        vol = int(b.volume)
        ids = [i + 1 for i in range(len(script["pushes"])) if vol >> i & 1]
        begin_us = round((b.datetime - vloop.EPOCH).total_seconds() * 1e6)
        end_us = round((ev.when - vloop.EPOCH).total_seconds() * 1e6)
        bt, et = to_tick(begin_us), to_tick(end_us)
        # emission time: the first tick whose instant is >= the emission instant
        at_tick = next(t for t in range(0, script["maxnow"] + 2 * W) if to_us(t) >= at_us)
        if bt is None or et is None:
            offgrid.append({"begin_us": begin_us, "end_us": end_us})
            bt = bt if bt is not None else -1
            et = et if et is not None else -1
        bars.append({"begin": bt, "end": et, "o": int(b.open), "h": int(b.high), "l": int(b.low), "c": int(b.close),
                     "v": sum(script["pushes"][i - 1]["a"] for i in ids), "ids": ids, "at": at_tick})
    return {"kind": "trades", "W": W, "delay": delay_ticks,
            "H": {"pushes": pushes_out, "bars": bars, "k0": script["start"] // W, "nflushed": state["nflushed"],
                  "skipFirst": script["skipFirst"]},
            "offgrid": offgrid + ([{"livelock": True}] if livelock else []), "errors": len(errors), "script": script}


ENCODINGS = ["utf-8", "utf-8-sig", "utf-16-le+bom", "utf-16-be+bom", "utf-16-le", "utf-16-be",
             "utf-32-le+bom", "utf-32-be+bom", "utf-32-le", "utf-32-be"]
T0 = datetime.datetime(2015, 1, 1, tzinfo=UTC)


def write_csv(path: str, rows: List[dict], encoding: str, tick_s: int, scale: int, flavour: str):
    import codecs
    if flavour == "yahoo":
        lines = ["Date,Open,High,Low,Close,Volume,Adj Close"]
    else:
        lines = ["datetime,open,high,low,close,volume"]

    def dec(x):
        return str(Decimal(x) / scale)
    for r in rows:
        t = T0 + datetime.timedelta(seconds=r["t"] * tick_s)
        ts = t.strftime("%Y-%m-%d") if flavour == "yahoo" else t.strftime("%Y-%m-%d %H:%M:%S")
        vals = [ts, dec(r["o"]), dec(r["h"]), dec(r["l"]), dec(r["c"]), dec(r["v"])]
        if flavour == "yahoo":
            vals.append(dec(r["c"]))
        lines.append(",".join(vals))
    text = "\n".join(lines) + "\n"
    enc, bom = (encoding[:-4], True) if encoding.endswith("+bom") else (encoding, False)
    data = text.encode("utf-8") if enc in ("utf-8", "utf-8-sig") else text.encode(enc)
    if enc == "utf-8-sig":
        data = codecs.BOM_UTF8 + data
    if bom:
        data = {"utf-16-le": codecs.BOM_UTF16_LE, "utf-16-be": codecs.BOM_UTF16_BE,
                "utf-32-le": codecs.BOM_UTF32_LE, "utf-32-be": codecs.BOM_UTF32_BE}[enc] + data
    with open(path, "wb") as f:
        f.write(data)


def run_csv(script: dict, workdir: str) -> dict:
    """script: {rows, sort, period ('1m'|'1h'|'1d'), flavour, encoding, scale} -> recorded events in ticks/units."""
    from basana.core.pair import Pair
    tick_s = {"1m": 60, "1h": 3600, "1d": 86400}[script["period"]]
    path = os.path.join(workdir, f"bars-{os.getpid()}-{script['id']}.csv")
    write_csv(path, script["rows"], script["encoding"], tick_s, script["scale"], script["flavour"])
    pair = Pair("BTC", "USD")
    # the rows' naive timestamps are wall-clock times of the zone the caller names: ticks are counted from T0 in that zone
    tz = datetime.timezone(datetime.timedelta(minutes=int(script.get("tz_min", 0))))
    T0z = T0.replace(tzinfo=tz)

    def ticks(dt):
        q, r = divmod((dt - T0z).total_seconds(), tick_s)
        return int(q) if r == 0 and dt.utcoffset() == tz.utcoffset(None) else -999
    if script["flavour"] == "bitstamp":
        from basana.external.bitstamp.csv.bars import BarSource
        src = BarSource(pair, path, script["period"], sort=script["sort"], tzinfo=tz)
    elif script["flavour"] == "binance":
        from basana.external.binance.csv.bars import BarSource
        src = BarSource(pair, path, script["period"], sort=script["sort"], tzinfo=tz)
    else:
        from basana.external.yahoo.bars import CSVBarSource
        src = CSVBarSource(pair, path, sort=script["sort"], tzinfo=tz)
    events, error, exc = [], False, ""
    scale = script["scale"]

    def units(x):
        v = Decimal(x) * scale
        return int(v) if v == v.to_integral_value() else -1
    loop = asyncio.new_event_loop()
    try:
        loop.run_until_complete(src.initialize())
        while True:
            ev = src.pop()
            if ev is None:
                break
            b = ev.bar
            events.append({"when": ticks(ev.when), "t": ticks(b.datetime),
                           "o": units(b.open), "h": units(b.high), "l": units(b.low), "c": units(b.close), "v": units(b.volume)})
        loop.run_until_complete(src.finalize())
    except Exception as e:  # noqa: BLE001
        error, exc = True, f"{type(e).__name__}: {e}"
    finally:
        loop.close()
        os.unlink(path)
    return {"kind": "csv", "rows": script["rows"], "sort": script["sort"], "period": 1, "events": events, "error": error,
            "exc": exc, "script": script}
