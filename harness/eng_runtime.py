"""C14 (lifecycle, fault isolation, bounded concurrency, logging restored) and C15 (realtime timing).

  MC      RunLifecycle.tla  every exit path x every producer failing in initialize / main / finalize, both dispatchers
          RtDispatcher.tla  the realtime loop iteration with its two concurrent pushers against the task pool
          (C14 also re-runs the bounded-concurrency family of BtDispatcher.tla)
  REPLAY  every lifecycle scenario of the model executed on the real dispatchers under the virtual-time loop
  TRACE   seeded random arrival patterns / jobs / idle handlers / durations on the real RealtimeDispatcher
  every recorded run is judged by TLC (RtTrace.tla: RtProps / LifeProps predicates)
"""
from __future__ import annotations

import itertools
import json
import multiprocessing as mp
import random
from typing import List

from . import tlc
from .common import Report, Violation

CLAUSE_PROP = {
    "C15_NeverEarly": "C15", "C15_PerSourceOrder": "C15", "C15_DropReported": "C15", "C15_EventuallyDispatchedOnce": "C15",
    "C15_IdleOnlyWhenIdle": "C15",
    "C14_BoundedConcurrency": "C14", "C14_NoInternalError": "C14", "C14_MainAfterAllInit": "C14", "C14_FinalizedOnce": "C14",
    "C14_FinalizeLast": "C14", "C14_Outcome": "C14", "C14_Prompt": "C14", "C14_LogFactoryRestored": "C14",
    "C14_HandlerFaultIsolated": "C14",
}
EXITS = ["exhausted", "stop_handler", "handler_error_stop", "handler_error_continue", "external_cancel", "external_stop",
         "stop_during_init"]


def life_scenarios(full: bool) -> List[dict]:
    out = []
    specs = [{"init": i, "main": m, "fin": f} for i in ("ok", "raise") for m in ("return", "raise", "forever") for f in ("ok", "raise")]
    for disp in ("bt", "rt"):
        for ex in EXITS:
            for maxc in (1, 2):
                long_ok = ex in ("stop_handler", "external_cancel", "external_stop", "handler_error_stop")
                for hm in ((0, 3600000) if long_ok else (0,)):
                    for s in specs:                                   # one producer
                        out.append({"disp": disp, "producers": [s], "exit": ex, "maxc": maxc, "handler_ms": hm})
                    pairs = itertools.product(specs, specs) if full else [(a, b) for a in specs[::3] for b in specs[1::4]]
                    for a, b in pairs:
                        out.append({"disp": disp, "producers": [a, b], "exit": ex, "maxc": maxc, "handler_ms": hm})
    return out


def random_rt(rng: random.Random) -> dict:
    ns = rng.randint(1, 2)
    arrivals, t = [], 0
    for i in range(rng.randint(0, 8)):
        t += rng.choice([0, 0, 5, 20, 40])
        mode = rng.random()
        when = t if mode < 0.4 else max(0, t - rng.randint(1, 60)) if mode < 0.8 else t + rng.randint(10, 120)
        arrivals.append({"id": i + 1, "src": rng.randint(1, ns), "arrive": t, "when": when})
    hs = [[{"dur": rng.choice([0, 5, 30]), "raise": rng.random() < 0.15} for _ in range(rng.randint(1, 2))] for _ in range(ns)]
    # scheduled in list order: near and far-future times interleaved in any order (the scheduler's heap must cope)
    jobs = [{"id": k + 1, "when": rng.randint(0, 250) if rng.random() < 0.65 else rng.randint(20000, 90000),
             "dur": rng.choice([0, 10, 40]), "raise": rng.random() < 0.2}
            for k in range(rng.choice([0, 1, 2, 3, 6, 9]))]
    idle = [rng.choice([20, 35]) for _ in range(rng.choice([0, 0, 1, 2]))]
    return {"ns": ns, "arrivals": arrivals, "hs": hs, "jobs": jobs, "idle": idle, "maxc": rng.choice([1, 1, 2, 3, 50]),
            "stop_at": 700}


def _run(job):
    from . import rt_impl
    kind, payload = job
    try:
        return rt_impl.run_rt(payload) if kind == "rt" else rt_impl.run_life(payload)
    except Exception as e:  # noqa: BLE001
        import traceback
        return {"harness_error": f"{type(e).__name__}: {e}\n{traceback.format_exc()[-1500:]}"}


def run_jobs(jobs):
    with mp.get_context("fork").Pool(tlc.NCPU) as pool:
        out = pool.map(_run, jobs, chunksize=max(1, len(jobs) // (tlc.NCPU * 4)))
    for o in out:
        if "harness_error" in o:
            raise tlc.MachineryError("runtime runner failed: " + o["harness_error"])
    return out


def rt_cfg(consts: dict) -> str:
    return tlc.cfg_text(dict(consts, IdleOnAnyDone=consts.get("IdleOnAnyDone", False)), invariants=RT_INVS)


LIFE_INVS = ["Inv_C14_MainAfterAllInit", "Inv_C14_FinalizedOnce", "Inv_C14_Outcome", "Inv_C14_LogFactoryRestored",
             "Inv_C14_PoolCancelledBeforeFinalize"]
RT_INVS = ["Inv_C14_NoCrash", "Inv_C14_BoundedConcurrency", "Inv_C15_NeverEarly", "Inv_C15_PerSourceOrder",
           "Inv_C15_DropReported", "Inv_C15_IdleOnlyWhenIdle"]


def check(rep: Report, tier: str, seed: int, prop: str = None):
    prop = prop or rep.prop
    rng = random.Random(seed * 104729 + (14 if prop == "C14" else 15))
    quick = tier == "quick"
    with tlc.scratch() as wd:
        # ---- MC -----------------------------------------------------------------------------------------------
        if prop == "C14":
            res = tlc.run("RunLifecycle", tlc.cfg_text({"NP": 2, "FixLogMode": True, "GuardEach": True}, invariants=LIFE_INVS), workdir=wd)
            rep.add_tlc("RunLifecycle/MC", res, {"NP": 2}, "every exit path x producer faults x both dispatchers x interleavings of producer tasks")
            if not res.ok:
                rep.violation(Violation("C14", res.violated, "mc", {"trace": (res.counterexample or [])[-2:]}, discriminator="model:lifecycle"))
            if not quick:
                res3 = tlc.run("RunLifecycle", tlc.cfg_text({"NP": 3, "FixLogMode": True, "GuardEach": True}, invariants=LIFE_INVS), workdir=wd,
                               timeout=1800)
                rep.add_tlc("RunLifecycle/MC", res3, {"NP": 3}, "three producers: every exit path x producer faults x both dispatchers x interleavings")
                if not res3.ok:
                    rep.violation(Violation("C14", res3.violated, "mc", {"trace": (res3.counterexample or [])[-2:]}, discriminator="model:lifecycle3"))
            bad = tlc.run("RunLifecycle", tlc.cfg_text({"NP": 2, "FixLogMode": True, "GuardEach": False}, invariants=LIFE_INVS), workdir=wd,
                          dump_trace=False)
            if bad.ok:
                raise tlc.MachineryError("must-fail config (one guard around all finalizers) was accepted")
            rep.extra["must_fail_lifecycle"] = {"GuardEach": False, "violated": bad.violated}
        for consts in ([dict(MaxC=1, NJobs=1, NEvents=2, NIdle=0, MaxNow=4, FixPool=True), dict(MaxC=2, NJobs=2, NEvents=2, NIdle=2, MaxNow=3, FixPool=True)]
                       + ([] if quick else [dict(MaxC=1, NJobs=2, NEvents=3, NIdle=2, MaxNow=4, FixPool=True)])):
            res = tlc.run("RtDispatcher", rt_cfg(consts), workdir=wd, timeout=1500)
            rep.add_tlc("RtDispatcher/MC", res, consts, "loop iterations with two concurrent pushers, every interleaving with handler completions and the clock")
            if not res.ok:
                rep.violation(Violation(prop, res.violated, "mc", {"constants": consts, "trace": (res.counterexample or [])[-2:]},
                                        discriminator="model:rt"))
        # beyond the exhaustive bounds: random behaviours of the same model at larger constants (TLC -simulate)
        for k, consts in enumerate([dict(MaxC=2, NJobs=3, NEvents=4, NIdle=2, MaxNow=8, FixPool=True)]
                                   + ([] if quick else [dict(MaxC=3, NJobs=2, NEvents=5, NIdle=3, MaxNow=10, FixPool=True)])):
            res = tlc.run("RtDispatcher", rt_cfg(consts), workdir=wd, mode="sim", sim_num=150 if quick else 4000,
                          sim_depth=120, seed=seed + k, workers=8, timeout=900)
            rep.add_tlc("RtDispatcher/SIM", res, consts, "random behaviours of the realtime loop model beyond the exhaustive bounds (depth 120)")
            if not res.ok:
                rep.violation(Violation(prop, res.violated, "mc", {"constants": consts, "trace": (res.counterexample or [])[-2:]},
                                        discriminator="model:rt-sim"))
        if not quick:
            consts = dict(MaxC=2, NJobs=2, NEvents=3, NIdle=1, MaxNow=4, FixPool=True)
            res = tlc.run("RtDispatcher", rt_cfg(consts), workdir=wd, timeout=2400)
            rep.add_tlc("RtDispatcher/MC", res, consts, "deeper exhaustive configuration: pool of two, two jobs, three events, one idle handler")
            if not res.ok:
                rep.violation(Violation(prop, res.violated, "mc", {"constants": consts, "trace": (res.counterexample or [])[-2:]},
                                        discriminator="model:rt"))
            bad = tlc.run("RtDispatcher", rt_cfg(dict(MaxC=2, NJobs=3, NEvents=4, NIdle=2, MaxNow=8, FixPool=False)),
                          workdir=wd, mode="sim", sim_num=4000, sim_depth=120, seed=seed, workers=8, timeout=900, dump_trace=False)
            if bad.ok:
                raise tlc.MachineryError("must-fail simulation (pool without the double-collection guard, larger constants) was accepted")
            rep.extra["must_fail_sim"] = {"FixPool": False, "violated": bad.violated}
            res = tlc.run("RtDispatcher", rt_cfg(dict(MaxC=1, NJobs=1, NEvents=2, NIdle=0, MaxNow=4, FixPool=False)),
                          workdir=wd, dump_trace=False)
            if res.ok:
                raise tlc.MachineryError("must-fail config (pool without the double-collection guard) was accepted")
            rep.extra["must_fail"] = {"FixPool": False, "violated": res.violated}
            bad = tlc.run("RtDispatcher", rt_cfg(dict(MaxC=2, NJobs=2, NEvents=2, NIdle=2, MaxNow=3, FixPool=True, IdleOnAnyDone=True)), workdir=wd,
                          dump_trace=False)
            if bad.ok or bad.violated != "Inv_C15_IdleOnlyWhenIdle":
                raise tlc.MachineryError(f"must-fail config (idle handlers pushed when wait() reports a finished task) gave {bad.violated}")
            rep.extra["must_fail_idle"] = {"IdleOnAnyDone": True, "violated": bad.violated}
        rep.exhaustive = True
        # ---- implementation ------------------------------------------------------------------------------------
        jobs = []
        if prop == "C14":
            sc = life_scenarios(full=not quick)
            if quick:
                sc = rng.sample(sc, 500)
            jobs += [("life", s) for s in sc]
        n_life = len(jobs)
        for _ in range(300 if quick else 4000):
            jobs.append(("rt", random_rt(rng)))
        # regression scenario of D7: pool of one, a due job and a due event
        jobs.append(("rt", {"ns": 1, "arrivals": [{"id": 1, "src": 1, "arrive": 0, "when": 0}], "hs": [[{"dur": 30, "raise": False}]],
                            "jobs": [{"id": 1, "when": 0, "dur": 30, "raise": False}], "idle": [], "maxc": 1, "stop_at": 400}))
        jobs.append(("rt", {"ns": 1, "arrivals": [], "hs": [[{"dur": 0, "raise": False}]], "jobs": [], "idle": [20, 20, 35], "maxc": 2, "stop_at": 300}))
        runs = run_jobs(jobs)
        recs = []
        for i, r in enumerate(runs, start=1):
            if r["kind"] == "rt":
                recs.append({"id": i, "kind": "rt", "cfg": r["cfg"], "hist": r["hist"], "nerrors": r["nerrors"], "outcome": r["outcome"]})
            else:
                recs.append({"id": i, "kind": "life", "cfg": r["cfg"], "calls": r["calls"], "outcome": r["outcome"], "run_ms": r["run_ms"],
                             "inflight_cancelled": r["inflight_cancelled"], "inflight_finished": r["inflight_finished"],
                             "log_restored": r["log_restored"]})
        from .eng_dispatcher import tlc_batches
        verd, results = tlc_batches("RtTrace", recs, wd, "AllConsumed", min(tlc.NCPU, max(1, len(recs) // 40)))
        agg = results[0]
        agg.distinct, agg.generated = sum(r.distinct for r in results), sum(r.generated for r in results)
        rep.add_tlc("RtTrace/TRACE", agg, None, f"{len(recs)} recorded runs")
        for i, r in enumerate(runs, start=1):
            v = verd.get(i)
            if v is None:
                raise tlc.MachineryError(f"no verdict for run {i}")
            if i <= n_life:
                rep.replays += 1
            else:
                rep.traces += 1
            rep.steps += len(r.get("hist") or r.get("calls") or [])
            rep.distinct(hash(json.dumps(r["cfg"], sort_keys=True)))
            mine = sorted(c for c in v["failing"] if CLAUSE_PROP.get(c) == prop)
            if mine:
                disc = mine[0]
                if r["kind"] == "life":
                    disc += "/" + r["cfg"]["disp"] + "/" + r["cfg"]["exit"]
                rep.violation(Violation(prop, mine[0], "replay" if i <= n_life else "trace",
                                        {"failing": sorted(v["failing"]), "cfg": r["cfg"], "outcome": r["outcome"], "exc": r.get("exc"),
                                         "history": (r.get("hist") or r.get("calls") or [])[:30]},
                                        script={"kind": r["kind"], "cfg": r["cfg"]}, discriminator=disc))
        rep.sample({"leg": "trace", "cfg": runs[-3]["cfg"], "hist": (runs[-3].get("hist") or [])[:8]})
        if n_life:
            rep.sample({"leg": "replay", "cfg": runs[0]["cfg"], "calls": runs[0]["calls"][:10], "outcome": runs[0]["outcome"]})
        if prop == "C14":
            # the backtesting half (bounded concurrency, fault isolation) lives in the dispatcher engine
            from . import eng_dispatcher
            eng_dispatcher.check(rep, tier, seed, prop="C14")
    rep.assumptions += [
        "all runs execute under a virtual-time asyncio loop; basana.core.dt.utc_now is substituted by the harness; the "
        "realtime loop keeps its real 10 ms polling",
        "liveness ('eventually dispatched') is checked as bounded response: the dispatcher is stopped long after the last item is due",
        "stop() requested before run() is outside the statement's exit paths (DESIGN.md §7 O3)",
    ]
    rep.extra["rule"] = "distinct = distinct scenarios (arrival pattern, jobs, idle handlers, durations, pool size / lifecycle fault matrix entry)"


def replay(script: dict) -> int:
    from . import rt_impl
    r = rt_impl.run_rt(script["cfg"]) if script["kind"] == "rt" else rt_impl.run_life(script["cfg"])
    print(json.dumps({k: v for k, v in r.items() if k != "cfg"}, default=str)[:4000])
    return 0 if r["outcome"] in ("returned",) else 1
