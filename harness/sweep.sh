#!/bin/sh
# false-alarm sweep: every quick check for a range of seeds on the unchanged tree; prints only what is not "ok"
# usage: sweep.sh FROM TO [props...]
from=$1; to=$2; shift 2
props="${*:-C01 C02 C03 C04 C05 C06 C07 C08 C09 C10 C11 C12 C13 C14 C15 C16 C17 C18 C19 C20}"
export VERIF_EVIDENCE_DIR=${VERIF_EVIDENCE_DIR:-/tmp/sweep_evidence} VERIF_REPLAYS_DIR=${VERIF_REPLAYS_DIR:-/tmp/sweep_replays}
mkdir -p $VERIF_EVIDENCE_DIR
for s in $(seq $from $to); do for p in $props; do
  out=$(VERIF_SEED=$s /venv/bin/python harness/check.py $p --tier ${SWEEP_TIER:-quick} 2>&1); rc=$?
  echo "seed=$s $p rc=$rc $(echo "$out" | tail -1 | cut -c1-160)"
  if [ $rc -ne 0 ]; then echo "$out" | grep -E "VIOLATION|clause=|MACHINERY|Error" | head -6 | cut -c1-1500; fi
done; done
