"""Drives the real websocket clients (core generic client, Binance, Bitstamp public / private) against a scripted peer
under the virtual-time loop, inside a real RealtimeDispatcher (so that keep-alive jobs run), and records what the peer
saw: connection attempts, SUBSCRIBE frames per connection, events per channel source, keep-alive calls, errors.

The peer is a fake aiohttp session / websocket pair faithful to the subset of aiohttp the client relies on
(ws_connect() async context manager, async iteration over WSMessage, closed, close(), send_str()).
All times are integer milliseconds of virtual time.
"""
from __future__ import annotations

import asyncio
import contextlib
import json
import logging
from typing import List

import aiohttp

from . import vloop


class FakeWS:
    def __init__(self, peer, conn: int):
        self.peer, self.conn = peer, conn
        self._closed = False
        self._q: asyncio.Queue = asyncio.Queue()

    @property
    def closed(self):
        return self._closed

    async def send_str(self, s: str):
        if self._closed:
            raise ConnectionResetError("Cannot write to closing transport")
        self.peer.on_frame(self, json.loads(s))

    async def close(self, *a, **k):
        if not self._closed:
            self._closed = True
            self._q.put_nowait(aiohttp.WSMessage(aiohttp.WSMsgType.CLOSED, None, None))
            self.peer.on_closed(self)

    def __aiter__(self):
        return self

    async def __anext__(self):
        if self._closed and self._q.empty():
            raise StopAsyncIteration
        m = await self._q.get()
        if m.type in (aiohttp.WSMsgType.CLOSE, aiohttp.WSMsgType.CLOSING, aiohttp.WSMsgType.CLOSED):
            if not self._closed:
                self._closed = True
                self.peer.on_closed(self)
            raise StopAsyncIteration
        return m

    # peer side
    def feed(self, obj):
        self._q.put_nowait(aiohttp.WSMessage(aiohttp.WSMsgType.TEXT, obj if isinstance(obj, str) else json.dumps(obj), None))

    def server_close(self):
        self._q.put_nowait(aiohttp.WSMessage(aiohttp.WSMsgType.CLOSE, 1000, None))

    def drop(self):
        self._q.put_nowait(aiohttp.WSMessage(aiohttp.WSMsgType.CLOSED, None, None))


class Peer:
    def __init__(self, loop, flavour: str):
        self.loop, self.flavour = loop, flavour
        self.attempts: List[int] = []
        self.conns: List[dict] = []          # {"conn", "start", "end", "frames": [{"t", "channels"}]}
        self.ws: List[FakeWS] = []
        self.refuse_next = 0
        self.stream_of = {}                  # binance: channel alias -> current stream name, filled from the fake api

    def ms(self):
        return round(self.loop.time() * 1000)

    def accept(self):
        self.attempts.append(self.ms())
        if self.refuse_next > 0:
            self.refuse_next -= 1
            raise aiohttp.ClientConnectionError("scripted: connection refused")
        ws = FakeWS(self, len(self.conns) + 1)
        self.ws.append(ws)
        self.conns.append({"conn": ws.conn, "start": self.ms(), "end": -1, "frames": []})
        return ws

    def on_closed(self, ws):
        if self.conns[ws.conn - 1]["end"] < 0:
            self.conns[ws.conn - 1]["end"] = self.ms()

    def on_frame(self, ws, frame):
        chans = []
        if self.flavour == "generic":
            chans = [frame["channel"]]
        elif self.flavour == "binance":
            if frame.get("method") == "SUBSCRIBE":
                chans = list(frame["params"])          # stream names
        else:
            if frame.get("event") == "bts:subscribe":
                chans = [frame["data"]["channel"]]
        if chans:
            self.conns[ws.conn - 1]["frames"].append({"t": self.ms(), "channels": chans})

    def live(self):
        return self.ws[-1] if self.ws and not self.ws[-1].closed else None


class FakeSession:
    def __init__(self, peer):
        self.peer = peer

    def ws_connect(self, url, heartbeat=None, **kw):
        peer = self.peer

        @contextlib.asynccontextmanager
        async def cm():
            ws = peer.accept()
            try:
                yield ws
            finally:
                await ws.close()
        return cm()


def run_ws(W: dict) -> dict:
    import basana as bs
    import basana.core.websockets as core_ws
    from basana.core import event as bsevent

    hist = {"events": [], "errors": 0, "keepalive": [], "keys": [], "registered": [], "resub": [], "data": [], "unknown": 0}
    out = {"outcome": "returned"}
    holder = {}

    async def scenario(loop):
        logging.disable(logging.CRITICAL)
        peer = Peer(loop, W["flavour"] if W["flavour"] in ("generic", "binance") else "bitstamp")
        holder["peer"] = peer
        session = FakeSession(peer)
        d = bs.realtime_dispatcher(max_concurrent=10)

        class Ev(bsevent.Event):
            def __init__(self, m):
                super().__init__(bs.utc_now() if hasattr(bs, "utc_now") else vloop.EPOCH)
                self.m = m

        class Src(core_ws.ChannelEventSource):
            def __init__(self, producer, channel):
                super().__init__(producer)
                self.channel = channel

            async def push_from_message(self, message):
                hist["events"].append({"t": peer.ms(), "source": self.channel, "n": message.get("n", message.get("data", {}).get("n", -1))})

        fail = {"keys": 0, "token": 0, "delay_token": 0, "keepalive": 0}

        if W["flavour"] == "generic":
            class Cli(core_ws.WebSocketClient):
                async def subscribe_to_channels(self, channels, ws_cli):
                    for c in sorted(channels):
                        await ws_cli.send_str(json.dumps({"request": "subscribe", "channel": c}))

                async def handle_message(self, message):
                    if message.get("type") == "request_reconnect":
                        self.schedule_reconnection()
                        return True
                    if message.get("type") == "error":
                        await self.on_error(message)
                        return True
                    if message.get("type") == "expired":
                        self.schedule_resubscription([message["channel"]])
                        return True
                    if (c := message.get("channel")) and (s := self.get_channel_event_source(c)):
                        await s.push_from_message(message)
                        return True
                    return False
            cli = Cli("ws://peer", session=session)

            def register(c):
                cli.set_channel_event_source(c, Src(cli, c))
                d_subscribe(cli.get_channel_event_source(c))
        elif W["flavour"] == "binance":
            from basana.external.binance import websockets as bws, spot as bspot

            class FakeSpot:
                async def create_listen_key(self):
                    if fail["delay_token"] > 0:
                        ms, fail["delay_token"] = fail["delay_token"], 0
                        await asyncio.sleep(ms / 1000)
                    if fail["keys"] > 0:
                        fail["keys"] -= 1
                        raise RuntimeError("scripted: listen key creation failed")
                    k = f"key{len(hist['keys']) + 1}"
                    hist["keys"].append({"t": peer.ms(), "key": k})
                    return {"listenKey": k}

                async def keep_alive_listen_key(self, key):
                    hist["keepalive"].append({"t": peer.ms(), "key": key})
                    if fail["keepalive"] > 0:
                        fail["keepalive"] -= 1
                        raise RuntimeError("scripted: keep-alive request failed (503)")
                    return {}

            class FakeApi:
                spot_account = FakeSpot()
            cli = bws.WebSocketClient(d, FakeApi(), session=session, config_overrides={
                "api": {"websockets": {"spot": {"user_data_stream": {"heartbeat": W["keepalive_s"]}}}}})
            chan_objs = {}

            def register(c):
                ch = bspot.SpotUserDataChannel() if c == "spot_user_data" else bws.PublicChannel(c)
                chan_objs[c] = ch
                cli.set_channel_event_source_ex(ch, Src(cli, c))
                d_subscribe(cli.get_channel_event_source_ex(ch))
            holder["chan_objs"] = chan_objs
        else:
            from basana.external.bitstamp import websockets as btws
            if W["flavour"] == "bitstamp_public":
                cli = btws.PublicWebSocketClient(session=session)
            else:
                cli = btws.PrivateWebSocketClient("key", "secret", session=session)

                class FakeClient:
                    async def get_websocket_auth_token(self):
                        if fail["delay_token"] > 0:
                            await asyncio.sleep(fail["delay_token"] / 1000)
                            fail["delay_token"] = 0
                        if fail["token"] > 0:
                            fail["token"] -= 1
                            raise RuntimeError("scripted: token request failed")
                        return {"token": "tok", "user_id": 7}
                cli._client = FakeClient()

            def register(c):
                cli.set_channel_event_source(c, Src(cli, c))
                d_subscribe(cli.get_channel_event_source(c))

        async def handler(ev):
            pass

        def d_subscribe(src):
            # subscribing once the dispatcher runs is not supported by the dispatcher; late channels are only registered
            # with the websocket client (the property is about the websocket side)
            if not d._running:
                d.subscribe(src, handler)
        orig_on_error = cli.on_error

        async def on_error(e):
            hist["errors"] += 1
        cli.on_error = on_error

        async def on_unknown(m):
            hist["unknown"] += 1
        cli.on_unknown_message = on_unknown
        cli.backoff_secs = W["backoff_s"]
        for c in W["channels_init"]:
            register(c)
            hist["registered"].append({"t": 0, "channel": c})
        # a dispatcher needs at least one producer even when no channel is registered yet
        if not W["channels_init"]:
            d.subscribe(bsevent.FifoQueueEventSource(producer=cli), handler)

        def stream_name(c):
            if W["flavour"] == "binance":
                ch = holder["chan_objs"].get(c)
                try:
                    return ch.stream if ch is not None else c
                except AssertionError:
                    return None
            if W["flavour"] == "bitstamp_private":
                return c
            return c

        async def script():
            n = 0
            for st in sorted(W["script"], key=lambda s: s["at"]):
                await vloop.sleep_until(loop, st["at"] / 1000 + 0.0003)
                ws = peer.live()
                op = st["op"]
                if op == "register":
                    if all(r["channel"] != st["ch"] for r in hist["registered"]):
                        register(st["ch"])
                        hist["registered"].append({"t": peer.ms(), "channel": st["ch"], "conn": ws.conn if ws else 0})
                elif op == "refuse_next":
                    peer.refuse_next += 1
                elif op == "fail_next_key":
                    fail["keys"] += 1
                    fail["token"] += 1
                elif op == "delay_token":
                    fail["delay_token"] = st.get("ms", 500)
                elif op == "fail_next_keepalive":
                    fail["keepalive"] += 1
                elif ws is None:
                    continue
                elif op == "close":
                    ws.server_close()
                elif op == "drop":
                    ws.drop()
                elif op == "garbage":
                    ws.feed("{not json")
                elif op == "request_reconnect":
                    if W["flavour"] == "generic":
                        ws.feed({"type": "request_reconnect"})
                    elif W["flavour"].startswith("bitstamp"):
                        ws.feed({"event": "bts:request_reconnect", "channel": "", "data": ""})
                    else:
                        ws.server_close()          # Binance has no reconnect request: the server just closes
                elif op == "error_reply":
                    ws.feed({"type": "error"} if W["flavour"] == "generic" else
                            {"event": "bts:error", "channel": "", "data": {"code": 4009}} if W["flavour"].startswith("bitstamp") else
                            {"result": {"code": 2, "msg": "bad"}, "id": 1})
                elif op in ("data", "key_expired"):
                    c = st["ch"]
                    s = stream_name(c)
                    subscribed = any(s in f["channels"] or c in f["channels"] or f"{c}-7" in f["channels"]
                                     for f in peer.conns[ws.conn - 1]["frames"])
                    if s is None or not subscribed:
                        continue
                    n += 1
                    if op == "data":
                        hist["data"].append({"t": peer.ms(), "conn": ws.conn, "channel": c, "n": n})
                        if W["flavour"] == "generic":
                            ws.feed({"channel": c, "n": n})
                        elif W["flavour"] == "binance":
                            ws.feed({"stream": s, "data": {"e": "x", "E": 0, "n": n}})
                        else:
                            ws.feed({"event": "trade", "channel": c, "data": {"n": n}})
                    else:
                        # raw: the stream name that just expired (a Binance listen key): the re-subscription needs another one
                        hist["resub"].append({"t": peer.ms(), "conn": ws.conn, "channel": c,
                                              "raw": s if W["flavour"] == "binance" and c == "spot_user_data" else ""})
                        if W["flavour"] == "generic":
                            ws.feed({"type": "expired", "channel": c})
                        elif W["flavour"] == "binance":
                            hist["data"].append({"t": peer.ms(), "conn": ws.conn, "channel": c, "n": n})
                            ws.feed({"stream": s, "data": {"e": "listenKeyExpired", "E": 0, "n": n}})
                        else:
                            hist["resub"].pop()
            await vloop.sleep_until(loop, W["stop_at"] / 1000)
            d.stop()
        st = asyncio.create_task(script())
        core_time = type("T", (), {"time": staticmethod(lambda: loop.time())})
        saved_time = core_ws.time
        core_ws.time = core_time
        try:
            await asyncio.wait_for(d.run(stop_signals=[]), timeout=W["stop_at"] / 1000 + 3600)
        except BaseException as e:  # noqa: BLE001
            out["outcome"] = f"raised:{type(e).__name__}:{e}"
        finally:
            core_ws.time = saved_time
            st.cancel()
            logging.disable(logging.NOTSET)
        for c in peer.conns:
            if c["end"] < 0:
                c["end"] = peer.ms()
    vloop.run(scenario)
    peer = holder["peer"]
    # normalise stream names back to channel names (binance listen keys)
    key_names = {k["key"] for k in hist["keys"]}
    conns = []
    for c in peer.conns:
        frames = []
        for f in c["frames"]:
            chans = []
            for x in f["channels"]:
                if x in key_names:
                    chans.append("spot_user_data")
                elif x.endswith("-7"):
                    chans.append(x[:-2])
                else:
                    chans.append(x)
            frames.append({"t": f["t"], "channels": chans, "raw": f["channels"]})
        conns.append({"conn": c["conn"], "start": c["start"], "end": c["end"], "frames": frames})
    return {"kind": "ws", "cfg": W, "attempts": peer.attempts, "conns": conns, "events": hist["events"], "errors": hist["errors"],
            "keepalive": hist["keepalive"], "keys": hist["keys"], "registered": hist["registered"], "resub": hist["resub"],
            "data": hist["data"], "unknown": hist["unknown"], "outcome": out["outcome"]}
