#!/venv/bin/python
"""MANIFEST.setup_cmd: nothing is built persistently; parse every TLA+ module with SANY so a broken spec fails early."""
import glob
import os
import sys

sys.path.insert(0, os.path.dirname(os.path.dirname(os.path.abspath(__file__))))
from harness import tlc  # noqa: E402

bad = 0
for f in sorted(glob.glob(os.path.join(tlc.SPECS, "*.tla"))):
    m = os.path.basename(f)[:-4]
    try:
        tlc.sany(m)
        print("sany ok", m)
    except tlc.MachineryError as e:
        print(e)
        bad += 1
import basana  # noqa: E402,F401  (the checks import /repo's working tree)
sys.exit(1 if bad else 0)
