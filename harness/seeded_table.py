#!/venv/bin/python
"""Runs every seeded change under /verif/seeded through the (quick) check of its property on a scratch worktree and writes
/verif/seeded/RESULTS.md plus a `verified` block into each meta.json.  Needs a worktree: SEED_TREE (default /tmp/wt/eval)."""
import glob
import json
import os
import subprocess
import sys

VERIF = os.path.dirname(os.path.dirname(os.path.abspath(__file__)))
tree = os.environ.get("SEED_TREE", "/tmp/wt/eval")
suite = {}
if os.path.exists("/tmp/seed_suite.jsonl"):
    for l in open("/tmp/seed_suite.jsonl"):
        d = json.loads(l)
        k = int(d["dir"].split("/")[-1]) + (2 if "/seeds2/" in d["dir"] else 4 if "/seeds3/" in d["dir"] else 6 if "/seeds4/" in d["dir"] else 0)   # round 2: <id>-3/-4, round 3: <id>-5/-6
        suite[d["dir"].split("/")[-2] + "-" + str(k)] = d
rows = []
if len(sys.argv) > 1 and sys.argv[1] == "--collect":
    # only rebuild RESULTS.md from the `verified` blocks that earlier (possibly parallel, one worktree each) runs wrote
    for d in sorted(glob.glob(os.path.join(VERIF, "seeded", "C*-*"))):
        meta = json.load(open(os.path.join(d, "meta.json")))
        v = meta.get("verified", {})
        rows.append((os.path.basename(d), meta["property"], v.get("check_exit"), ", ".join(v.get("check_clauses") or []),
                     (meta.get("summary") or "")[:140].replace("|", "/").replace("\n", " ")))
    sys.argv = sys.argv[:1]
for d in ([] if rows else sorted(glob.glob(os.path.join(VERIF, "seeded", "C*-*")))):
    name = os.path.basename(d)
    if len(sys.argv) > 1 and name not in sys.argv[1:]:
        continue
    p = subprocess.run(["/venv/bin/python", os.path.join(VERIF, "harness", "eval_seeded.py"), d], env=dict(os.environ, SEED_TREE=tree),
                       capture_output=True, text=True)
    try:
        r = json.loads(p.stdout.strip().splitlines()[-1])
    except Exception:
        r = {"error": (p.stdout + p.stderr)[-500:], "checks": {}}
    meta = json.load(open(os.path.join(d, "meta.json")))
    prop = meta["property"]
    c = r.get("checks", {}).get(prop, {})
    s = suite.get(name, {})
    meta["verified"] = {"patch_applies": "apply_failed" not in r, "demo_exit_unchanged": r.get("demo_on_clean"),
                        "demo_exit_patched": r.get("demo_on_patched"),
                        "baseline_tests_missing_with_patch": s.get("missing", "not run"),
                        "check_cmd": f"/venv/bin/python harness/check.py {prop} --tier quick (on a scratch worktree with the patch applied)",
                        "check_exit": c.get("exit"), "check_clauses": c.get("clauses"), "check_wall_s": c.get("wall_s")}
    json.dump(meta, open(os.path.join(d, "meta.json"), "w"), indent=1)
    rows.append((name, prop, c.get("exit"), ", ".join(c.get("clauses") or []), (meta.get("summary") or "")[:140].replace("|", "/").replace("\n", " ")))
    print(rows[-1], flush=True)
if len(sys.argv) == 1:
    with open(os.path.join(VERIF, "seeded", "RESULTS.md"), "w") as f:
        f.write("# Seeded changes vs the quick checks\n\n| change | property | check exit | clauses reported | what the change does |\n|---|---|---|---|---|\n")
        for r in rows:
            f.write(f"| {r[0]} | {r[1]} | {r[2]} {'(caught)' if r[2] == 1 else '(MISSED)' if r[2] == 0 else '(error)'} | {r[3]} | {r[4]} |\n")
        f.write(f"\ncaught {sum(1 for r in rows if r[2] == 1)} of {len(rows)}\n")
