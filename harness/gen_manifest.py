#!/venv/bin/python
"""Regenerates /verif/MANIFEST.json from the table below (single source of truth for the interface)."""
import json
import os
import sys

sys.path.insert(0, os.path.dirname(os.path.dirname(os.path.abspath(__file__))))
VERIF = os.path.dirname(os.path.dirname(os.path.abspath(__file__)))

PY = "/venv/bin/python"

EX_TECH = ("TLA+ spec of the exchange (ExchangeCore/ExchangeProps/Exchange.tla) model-checked with TLC; TLC-simulated behaviours "
           "replayed into the real Exchange; TLC trace validation (ExchangeTrace.tla) of every recorded implementation trace")
EX_NOTE = ("Trusted: TLC; the projection Decimal->integer units (fails clause Obs_Grid when not integral); the runner that drives the "
           "real Exchange inside a real BacktestingDispatcher. Small-scope exhaustiveness for the model; implementation coverage is "
           "seeded-random beyond it. Price-impact constant 0 (exact arithmetic); interest periods are 0 (flat interest) or powers of two ticks. Traces whose amounts would overflow TLC's 32-bit integers are cut or set aside and counted in the evidence.")


def ex(text, ref):
    return dict(engine="Exchange", technique=EX_TECH, text=text, note=EX_NOTE, design_ref=ref)


DISP_TECH = ("TLA+ spec of the backtesting dispatch loop (BtDispatcherCore/BtDispatcher.tla: multiplexer, heap, task pool, loop "
             "suspension points) model-checked with TLC over configuration families; histories recorded from the real dispatcher "
             "judged by TLC (DispTrace.tla property predicates + BtDispatcherTrace.tla behaviour inclusion with inferred loop steps)")
DISP_NOTE = ("Trusted: TLC; the harness' handler programs and logging. Handler suspension is asyncio.sleep(0) or futures released in "
             "seeded random order. Jobs never push events and handlers schedule at now() or later (outside the statements' quantifiers, "
             "DESIGN.md §7 O1/O2).")


def disp(text, ref):
    return dict(engine="BtDispatcher", technique=DISP_TECH, text=text, note=DISP_NOTE, design_ref=ref)


CLAIMED = {
    "C01": ex("Conservation is an invariant of the model (exhaustive over requests/cancels/loans/bars within small bounds, several "
              "fee/liquidity/lending configs) and is evaluated by TLC on every state of every recorded implementation trace "
              "(totals vs initial + fills - fees - paid interest, from the public API only).", "DESIGN.md §5 C01"),
    "C02": ex("Non-negativity, total = available + hold - borrowed and borrowed = open principal are model invariants and are "
              "evaluated on every implementation state (margin lending, competing orders, price gaps).", "DESIGN.md §5 C02"),
    "C03": disp("No-look-ahead is an invariant of the dispatcher model with an abstract exchange (every subscription order of bar / "
                "derived sources, max_concurrent 1..4, every interleaving of suspended handlers) and is evaluated on histories of "
                "the real dispatcher; the regression scenario of the fixed defect D1 stays in the corpus.", "DESIGN.md §5 C03"),
    "C04": ex("Per-fill price/trigger predicates written from the statement are action properties of the model (all weak orderings "
              "of o/h/l/c vs limit/stop on a small grid, partial fills from non-integral liquidity) and are evaluated on every "
              "fill of every implementation trace; completeness with unlimited liquidity likewise.", "DESIGN.md §5 C04"),
    "C05": ex("Lifecycle monotonicity, closure rules, listings (all filters cross-checked after every step, open list under "
              "re-indexing every 2..50 traversals) and the order-event stream are model properties and are judged on "
              "implementation traces.", "DESIGN.md §5 C05"),
    "C06": ex("hold = sum of the spec-side remaining reservations of open orders, no-open-no-hold, hold <= balance, and the "
              "acceptance boundary (driver aims at exactly-enough / one-unit-short) on model and implementation states.",
              "DESIGN.md §5 C06"),
    "C07": ex("Rejected_Unchanged compares the full projection before/after every raising call, in the model for every failure "
              "point and on every rejected call of the implementation traces.", "DESIGN.md §5 C07"),
    "C08": ex("Per-bar liquidity cap (rational), fill-or-kill of market/stop orders and the precision grid (projection fails on a "
              "non-integral unit count; scale lifting over precisions) on model and implementation.", "DESIGN.md §5 C08"),
    "C09": ex("Closed-form total fee (ceil(max(pct*quote, min))) against the code's incremental rule after every fill, any "
              "number of partial fills, on model and implementation; the closed form itself is proved with TLAPS for all rates, "
              "minimum fees, scales and fill sequences (specs/proofs/FeeProof.tla over FeeCore.tla, which ExchangeCore extends).",
              "DESIGN.md §5 C09"),
    "C10": ex("A granted loan (explicit or auto-borrow) implies the independently recomputed margin requirement in the post-state; "
              "no lending => no loans; zero-equity accounts included.", "DESIGN.md §5 C10"),
    "C11": ex("Interest formula (outstanding interest of every open loan compared at every step), repayment debit, closure causes "
              "and auto-repay order (largest first) on model and implementation.", "DESIGN.md §5 C11"),
    "C12": disp("Global time order, exactly-once, stage order, clock = event time and clock monotonicity are invariants of the "
                "dispatcher model and predicates judged by TLC on histories of the real dispatcher.", "DESIGN.md §5 C12"),
    "C13": disp("Every multiset of <= 3 job times around two events in every insertion order (heap modelled as heapq's array) plus "
                "random configurations in the model; the same predicates on real histories.", "DESIGN.md §5 C13"),
    "C14": dict(
        engine="RunLifecycle+RtDispatcher",
        technique="TLA+ specs RunLifecycle.tla (run() lifecycle and TaskGroup, fault enumeration), RtDispatcher.tla (realtime loop with "
                  "two concurrent pushers and the task pool) and BtDispatcher.tla model-checked with TLC; every lifecycle scenario "
                  "replayed on the real dispatchers under virtual time; recorded runs judged by TLC (RtTrace.tla: LifeProps/RtProps, "
                  "DispTrace.tla)",
        category="fault_enumeration",
        text="Every exit path x every producer failing in initialize/main/finalize x both dispatchers is enumerated in the model "
             "(all interleavings of the producer tasks) and executed on the real dispatchers; outcome class, init-before-main, "
             "finalize-exactly-once, promptness (one-hour handlers must be cancelled) and process-wide logging afterwards are "
             "judged by TLC on the recorded runs; bounded concurrency and fault isolation on both dispatch loops.",
        note="Trusted: TLC, the virtual-time loop, the scripted producers/handlers. stop() before run() is outside the quantifier (O3).",
        design_ref="DESIGN.md §5 C14"),
    "C15": dict(
        engine="RtDispatcher",
        technique="TLA+ spec RtDispatcher.tla model-checked with TLC (exhaustive for small constants, tlc -simulate beyond them, must-fail "
                  "configurations FixPool=FALSE / IdleOnAnyDone=TRUE); seeded random arrival / job / idle-handler scenarios on the "
                  "real RealtimeDispatcher under a virtual clock judged by TLC (RtTrace.tla: RtProps predicates)",
        text="Never-early, per-source order, drop-and-report of out-of-order events, idle handlers only when idle are invariants of the "
             "loop model; on the implementation the same predicates plus bounded-response delivery (every kept item exactly once per "
             "handler) are evaluated by TLC on recorded histories with the real 10 ms polling.",
        note="Liveness on the implementation is bounded response under virtual time; the model abstracts to one source and tick time.",
        design_ref="DESIGN.md §5 C15"),
    "C16": dict(
        engine="Signing",
        technique="TLA+ spec Signing.tla (build/throttle/stamp/sign/transmit/verify pipeline over character classes MEASURED from "
                  "urlencode and aiohttp) model-checked with TLC; every value shape concretised through every authenticated entry "
                  "point of the real clients into a loopback server that verifies HMAC-SHA256 over the raw bytes; requests judged by "
                  "TLC (ApiTrace.tla / SigningProps.tla); connection loss after receipt (resend designs none/resign pass, reuse must fail) "
                  "in the model and injected by the loopback server; concurrent request bursts",
        text="Model-checked rule (signed bytes = transmitted bytes for every endpoint placement and every class string up to length "
             "2-3, timestamp taken after the limiter wait, nonces unique) + one implementation request per concretised value and "
             "entry point (36 Binance + 11 Bitstamp calls) verified by an independent server implementation + seeded random client ids.",
        note="TLA+ says nothing about HMAC itself or about characters inside a class behaving alike beyond the measured atoms; the "
             "loopback server (about 40 lines) is trusted as the exchanges' documented check. Freshness is judged on a logical clock shared by the clients and the loopback exchange (no real-time tolerance).",
        design_ref="DESIGN.md §5 C16, §6"),
    "C17": dict(
        engine="WireFormat",
        technique="TLA+ spec WireFormat.tla (fixed-point rule on digit sequences, timestamp limbs, status alphabets, endpoint routing "
                  "table) evaluated by TLC on one implementation record per (digits, exponent) x order entry point received by a "
                  "loopback server and on wrapper objects built from generated payloads (ApiTrace.tla): 62 decimal fields, timestamps "
                  "through every wrapper, statuses, exact parameter-name sets, totals accumulated over trades / transactions",
        text="Every decimal of the grid {1,10,85,100,123,1050} x 10^-14..14 (within 1e-12..1e12) through every order entry point of both "
             "exchanges: the received text must be plain and numerically equal; unset options omitted; operation/pair/type select the "
             "documented path, side and symbol; ms/us timestamps 2010-2100 and every listed status decode as the rule says.",
        note="Codec-heavy: TLA+ contributes the rule and the enumeration, the loopback server and the wrapper objects the facts. "
             "Status alphabets are those listed in WireFormat.tla (DESIGN.md §7 O5).",
        design_ref="DESIGN.md §5 C17, §6"),
    "C18": dict(
        engine="WsClient",
        technique="TLA+ spec WsClient.tla (main loop + message/subscribe/reconnect tasks + fault-injecting peer) model-checked with TLC "
                  "incl. liveness under weak fairness; seeded fault scripts against the real generic, Binance and Bitstamp clients and a "
                  "scripted peer under virtual time, judged by TLC (WsTrace.tla: WsProps predicates)",
        text="Safety (routing, backoff, pending channels always have a wake-up) and liveness (pending channel on a live connection gets "
             "subscribed; convergence once the peer is quiet) on the model; bounded-response versions, keep-alive cadence of Binance "
             "listen keys, routing and backoff on recorded runs of the three real clients.",
        note="aiohttp's websocket is a scripted fake (ws_connect / async iteration / closed / close / send_str); liveness on the "
             "implementation is bounded response (1 s virtual).",
        design_ref="DESIGN.md §5 C18"),
    "C19": dict(
        engine="TradesToBar+CsvBars",
        technique="TLA+ spec TradesToBar.tla model-checked with TLC; simulated behaviours replayed on the real RealTimeTradesToBar.main() "
                  "under a virtual clock (exact equality); random trade streams and random CSV files (10 encodings, 3 source classes) "
                  "judged by TLC (BarsTrace.tla: TradesToBarCore / CsvBars predicates)",
        text="Exactly-one-bar, OHLCV, in-order acceptance and emission at window end are invariants over every schedule of pushes, "
             "ticks and flushes in the model; tick positions map to microsecond offsets around the last millisecond of a window; CSV "
             "rows-to-events is a TLA+ function the recorded events must equal.",
        note="Yahoo rows always carry non-zero volume in the generator (that source does not skip zero-volume rows).",
        design_ref="DESIGN.md §5 C19"),
    "C20": dict(
        engine="TokenBucket",
        technique="TLA+ spec (TokenBucket.tla) model-checked with TLC; the window bound additionally proved with TLAPS for all "
                  "parameters, times and histories (specs/proofs/TokenBucketProof.tla, same Consume operator); every terminal TLC "
                  "behaviour replayed into the real TokenBucketLimiter; TLC trace validation (TokenBucketTrace.tla) of recorded "
                  "implementation traces",
        text="Exhaustive TLC model checking of the limiter state machine over all arrival sequences within small bounds "
             "(window bound, burst-exact wait, refill cap), bound to the code in both directions: all terminal behaviours "
             "are replayed on the real limiter under a substituted clock and seeded random implementation traces "
             "(fractional rates, long idle gaps, overload) are judged step by step by TLC against the same operators.",
        note="Trusted: TLC, tlapm and its back ends, the harness' clock substitution and float->grid projection (relative tolerance "
             "1e-6). The TLAPS theorem is about the model (unbounded); the code is bound to the model by exact per-step conformance "
             "(Step_Consume) on replayed and random traces, which is sampling beyond the MC bounds.",
        design_ref="DESIGN.md §5 C20"),
}

NOT_YET = "check not built yet in this round (planned, see DESIGN.md §5); not claimed until it runs"


def main():
    props = [json.loads(l) for l in open(os.path.join(VERIF, "properties.jsonl"))]
    checks, na = [], []
    for p in props:
        pid = p["id"]
        c = CLAIMED.get(pid)
        if not c:
            na.append({"property_id": pid, "reason": NOT_YET})
            continue
        checks.append({
            "property_id": pid,
            "quick_cmd": f"{PY} harness/check.py {pid} --tier quick",
            "thorough_cmd": f"{PY} harness/check.py {pid} --tier thorough",
            "evidence_file": f"/verif/evidence/{pid}.json",
            "replay_cmd_template": f"{PY} harness/check.py {pid} --replay {{path}}",
            "engine": c["engine"],
            "level_claimed": {"category": c.get("category", "model_checking"), "text": c["text"], "design_ref": c["design_ref"]},
            "level_note": c["note"],
            "technique": c["technique"],
        })
    engines = {}
    for pid, c in CLAIMED.items():
        engines.setdefault(c["engine"], []).append(pid)
    man = {
        "version": 1,
        "setup_cmd": f"{PY} harness/setup.py",
        "hooks": {
            "guard": "BASANA_VERIF",
            "enable": "no hooks are compiled into /repo: observation goes through the public API, clocks and peers are substituted "
                      "from the harness process (BASANA_VERIF is reserved and unused)",
            "baseline_off_cmd": "cd /repo && /venv/bin/python -m pytest -ra -q -p no:cacheprovider --timeout=900 --continue-on-collection-errors",
            "source_commits": [],
            "add_only": True,
        },
        "engines": [{"name": e, "path": f"/verif/specs/{e}.tla", "serves_properties": sorted(ps),
                     "kind_free_text": "TLA+ module + TLC (MC / simulate / trace validation) + Python conformance harness"}
                    for e, ps in sorted(engines.items())],
        "checks": checks,
        "not_applicable": na,
        "notes": "All checks: exit 0 held / exit 1 VIOLATION line / exit 2 machinery failure. Known findings: /verif/known_findings.json.",
    }
    with open(os.path.join(VERIF, "MANIFEST.json"), "w") as f:
        json.dump(man, f, indent=1)
        f.write("\n")


if __name__ == "__main__":
    main()
