#!/venv/bin/python
"""Regenerates /verif/MANIFEST.json from the table below (single source of truth for the interface)."""
import json
import os
import sys

sys.path.insert(0, os.path.dirname(os.path.dirname(os.path.abspath(__file__))))
VERIF = os.path.dirname(os.path.dirname(os.path.abspath(__file__)))

PY = "/venv/bin/python"

CLAIMED = {
    "C20": dict(
        engine="TokenBucket",
        technique="TLA+ spec (TokenBucket.tla) model-checked with TLC; every terminal TLC behaviour replayed into the real "
                  "TokenBucketLimiter; TLC trace validation (TokenBucketTrace.tla) of recorded implementation traces",
        text="Exhaustive TLC model checking of the limiter state machine over all arrival sequences within small bounds "
             "(window bound, burst-exact wait, refill cap), bound to the code in both directions: all terminal behaviours "
             "are replayed on the real limiter under a substituted clock and seeded random implementation traces "
             "(fractional rates, long idle gaps, overload) are judged step by step by TLC against the same operators.",
        note="Trusted: TLC, the harness' clock substitution and float->grid projection (relative tolerance 1e-6). "
             "Small-scope exhaustiveness only; random traces extend beyond the bounds without completeness.",
        design_ref="DESIGN.md §5 C20"),
}

NOT_YET = "check not built yet in this round (planned, see DESIGN.md §5); not claimed until it runs"


def main():
    props = [json.loads(l) for l in open(os.path.join(VERIF, "properties.jsonl"))]
    checks, na = [], []
    for p in props:
        pid = p["id"]
        c = CLAIMED.get(pid)
        if not c:
            na.append({"property_id": pid, "reason": NOT_YET})
            continue
        checks.append({
            "property_id": pid,
            "quick_cmd": f"{PY} harness/check.py {pid} --tier quick",
            "thorough_cmd": f"{PY} harness/check.py {pid} --tier thorough",
            "evidence_file": f"/verif/evidence/{pid}.json",
            "replay_cmd_template": f"{PY} harness/check.py {pid} --replay {{path}}",
            "engine": c["engine"],
            "level_claimed": {"category": c.get("category", "model_checking"), "text": c["text"], "design_ref": c["design_ref"]},
            "level_note": c["note"],
            "technique": c["technique"],
        })
    engines = {}
    for pid, c in CLAIMED.items():
        engines.setdefault(c["engine"], []).append(pid)
    man = {
        "version": 1,
        "setup_cmd": f"{PY} harness/setup.py",
        "hooks": {
            "guard": "BASANA_VERIF",
            "enable": "no hooks are compiled into /repo: observation goes through the public API, clocks and peers are substituted "
                      "from the harness process (BASANA_VERIF is reserved and unused)",
            "baseline_off_cmd": "cd /repo && /venv/bin/python -m pytest -ra -q -p no:cacheprovider --timeout=900 --continue-on-collection-errors",
            "source_commits": [],
            "add_only": True,
        },
        "engines": [{"name": e, "path": f"/verif/specs/{e}.tla", "serves_properties": sorted(ps),
                     "kind_free_text": "TLA+ module + TLC (MC / simulate / trace validation) + Python conformance harness"}
                    for e, ps in sorted(engines.items())],
        "checks": checks,
        "not_applicable": na,
        "notes": "All checks: exit 0 held / exit 1 VIOLATION line / exit 2 machinery failure. Known findings: /verif/known_findings.json.",
    }
    with open(os.path.join(VERIF, "MANIFEST.json"), "w") as f:
        json.dump(man, f, indent=1)
        f.write("\n")


if __name__ == "__main__":
    main()
