"""Runs the TLA+ proof system (tlapm) on a proof module of /verif/specs/proofs against the modules of /verif/specs.
A proof is about the MODEL (for all parameters, times and histories); what binds the model to the code are the checks'
replay / trace legs, which use the very same operator definitions (the proof modules EXTEND the Core modules)."""
from __future__ import annotations

import os
import re
import shutil
import subprocess
import time

from . import tlc


def prove(module: str, workdir: str, timeout: int = 1800) -> dict:
    src = os.path.join(tlc.SPECS, "proofs", module + ".tla")
    if not os.path.exists(src):
        raise tlc.MachineryError(f"no proof module {src}")
    d = os.path.join(workdir, "tlaps_" + module)
    os.makedirs(d, exist_ok=True)
    shutil.copy(src, d)
    t = time.time()
    try:
        p = subprocess.run(["tlapm", "--threads", str(tlc.NCPU), "-I", tlc.SPECS, module + ".tla"], cwd=d, stdout=subprocess.PIPE,
                           stderr=subprocess.STDOUT, text=True, timeout=timeout)
    except FileNotFoundError:
        raise tlc.MachineryError("tlapm is not installed")
    except subprocess.TimeoutExpired:
        raise tlc.MachineryError(f"tlapm timed out on {module}")
    out = p.stdout
    m = re.search(r"All (\d+) obligations? proved", out)
    f = re.search(r"(\d+)/(\d+) obligations? failed", out)
    res = {"module": module, "wall_s": round(time.time() - t, 1), "proved": bool(m) and p.returncode == 0,
           "obligations": int(m.group(1)) if m else (int(f.group(2)) if f else 0), "failed": int(f.group(1)) if f else 0}
    if not m and not f:
        raise tlc.MachineryError(f"tlapm gave no verdict on {module}: {out[-800:]}")
    if not res["proved"]:
        res["tail"] = "\n".join(l for l in out.splitlines() if l.startswith("File") or "ERROR" in l)[:1500]
    return res
