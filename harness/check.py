#!/venv/bin/python
"""Entry point registered in MANIFEST.json:  check.py Cxx [--tier quick|thorough] [--replay path]

exit 0  property held on everything explored (KNOWN-FINDING lines may be printed)
exit 1  VIOLATION property=<id> replay=<path>
exit 2  machinery failure (TLC crash, vacuous run, unconfirmed counterexample ...) -- never a finding
"""
import argparse
import importlib
import json
import os
import sys
import traceback

sys.path.insert(0, os.path.dirname(os.path.dirname(os.path.abspath(__file__))))
os.environ.setdefault("PYTHONHASHSEED", "0")
import warnings  # noqa: E402
warnings.filterwarnings("ignore", category=RuntimeWarning)   # "coroutine ... was never awaited" when a scenario stops a dispatcher
warnings.filterwarnings("ignore", category=DeprecationWarning)

from harness import common, tlc  # noqa: E402

# property -> (engine module, check function name)
REGISTRY = {
    "C20": ("harness.eng_tokenbucket", "check"),
    "C19": ("harness.eng_bars", "check"),
    "C18": ("harness.eng_ws", "check"),
    "C16": ("harness.eng_api", "check"),
    "C17": ("harness.eng_api", "check"),
    "C14": ("harness.eng_runtime", "check"),
    "C15": ("harness.eng_runtime", "check"),
    **{c: ("harness.eng_dispatcher", "check") for c in ("C03", "C12", "C13")},
    **{c: ("harness.eng_exchange", "check") for c in
       ("C01", "C02", "C04", "C05", "C06", "C07", "C08", "C09", "C10", "C11")},
}


# evidence level per property (must equal MANIFEST level_claimed.category)
LEVELS = {"C14": "fault_enumeration"}


def main():
    ap = argparse.ArgumentParser()
    ap.add_argument("prop")
    ap.add_argument("--tier", default=os.environ.get("VERIF_TIER", "quick"), choices=["quick", "thorough"])
    ap.add_argument("--replay")
    a = ap.parse_args()
    if a.prop not in REGISTRY:
        print(f"unknown property {a.prop}", file=sys.stderr)
        return 2
    modname, fn = REGISTRY[a.prop]
    mod = importlib.import_module(modname)
    if a.replay:
        body = json.load(open(a.replay))
        return mod.replay(body.get("script") or body)
    rep = common.Report(a.prop, a.tier, common.seed_from_env(), level=LEVELS.get(a.prop, "model_checking"))
    try:
        getattr(mod, fn)(rep, a.tier, rep.seed)
    except tlc.MachineryError as e:
        print(f"MACHINERY-FAILURE property={a.prop}: {e}", file=sys.stderr)
        traceback.print_exc()
        return 2
    except Exception as e:  # noqa: BLE001 - anything unforeseen is a failure of the machinery, never a finding
        print(f"MACHINERY-FAILURE property={a.prop}: unexpected {type(e).__name__}: {e}", file=sys.stderr)
        traceback.print_exc()
        return 2
    return rep.finish()


if __name__ == "__main__":
    sys.exit(main())
