#!/venv/bin/python
"""Evaluate a seeded change: python eval_seeded.py <dir with patch.diff demo.py meta.json> [check ids...]
Applies the patch to /repo, runs the demonstration and the quick checks, undoes the patch (always).  Prints a JSON line."""
import json
import os
import subprocess
import sys
import time

d = os.path.abspath(sys.argv[1])
meta = json.load(open(os.path.join(d, "meta.json")))
props = sys.argv[2:] or [meta["property"]]
HOME = os.path.dirname(os.path.dirname(os.path.abspath(__file__)))
TREE = os.environ.get("SEED_TREE", "/repo")      # a scratch worktree keeps /repo itself untouched while evaluating
env = dict(os.environ, PYTHONPATH=TREE, VERIF_REPO=TREE, VERIF_EVIDENCE_DIR="/tmp/seed_eval/evidence",
           VERIF_REPLAYS_DIR="/tmp/seed_eval/replays")


def run(cmd, **kw):
    return subprocess.run(cmd, stdout=subprocess.PIPE, stderr=subprocess.STDOUT, text=True, **kw)


run(["git", "-C", TREE, "checkout", "--", "."])
if TREE != "/repo":
    run(["git", "-C", TREE, "checkout", "-q", "--detach", run(["git", "-C", "/repo", "rev-parse", "HEAD"]).stdout.strip()])
assert run(["git", "-C", TREE, "status", "--porcelain"]).stdout.strip() == "", "tree not clean"
out = {"dir": d, "property": meta["property"], "checks": {}}
demo_clean = run(["/venv/bin/python", os.path.join(d, "demo.py")], env=env, cwd="/tmp", timeout=600)
out["demo_on_clean"] = demo_clean.returncode
ap = run(["git", "-C", TREE, "apply", os.path.join(d, "patch.diff")])
if ap.returncode != 0:
    out["apply_failed"] = ap.stdout[-500:]
    print(json.dumps(out))
    sys.exit(0)
try:
    demo = run(["/venv/bin/python", os.path.join(d, "demo.py")], env=env, cwd="/tmp", timeout=600)
    out["demo_on_patched"] = demo.returncode
    for p in props:
        t = time.time()
        r = run(["/venv/bin/python", os.path.join(HOME, "harness", "check.py"), p, "--tier", os.environ.get("SEED_TIER", "quick")], cwd=HOME, timeout=3600, env=env)
        viol = [l for l in r.stdout.splitlines() if l.startswith("VIOLATION")]
        clauses = sorted({l.split("clause=")[1].split()[0] for l in r.stdout.splitlines() if "clause=" in l})
        out["checks"][p] = {"exit": r.returncode, "violations": len(viol), "clauses": clauses, "wall_s": round(time.time() - t, 1),
                            "drift": sum(1 for l in r.stdout.splitlines() if l.startswith("DRIFT")),
                            "tail": r.stdout[-300:] if r.returncode not in (0, 1) else ""}
finally:
    run(["git", "-C", TREE, "checkout", "--", "."])
    subprocess.run("rm -rf /tmp/seed_eval/replays", shell=True)
print(json.dumps(out))
