"""C03 on real backtests: scripted strategies on the real Exchange inside the real BacktestingDispatcher, the same scenario
for several max_concurrent values.  Multi-pair bar feeds, several subscribers per pair, order-event subscribers, every
interleaving of add_bar_source / subscribe_to_bar_events calls."""
from __future__ import annotations

import asyncio
import datetime
import logging
import random
from decimal import Decimal

UTC = datetime.timezone.utc
T0 = datetime.datetime(2001, 1, 1, tzinfo=UTC)
TICK = datetime.timedelta(hours=1)


def random_scenario(rng: random.Random) -> dict:
    npairs = rng.randint(2, 4)
    pairs = [f"P{i}" for i in range(npairs)]
    nsrc = rng.randint(1, npairs)
    src_of = {p: rng.randrange(nsrc) for p in pairs}
    T = rng.randint(3, 6)
    bars = []          # per source: list of [t, pair, price]
    for s in range(nsrc):
        evs = []
        for t in range(1, T + 1):
            for p in pairs:
                if src_of[p] == s and rng.random() < 0.9:
                    evs.append({"t": t, "pair": p, "price": rng.randint(5, 50)})
        bars.append(evs)
    handlers = []      # [id, pair, actions: {t: [{pair, op, amount, type}]}]
    hid = 0
    for p in pairs:
        for _ in range(rng.randint(1, 3)):
            hid += 1
            acts = {}
            for t in range(1, T + 1):
                if rng.random() < 0.5:
                    acts[str(t)] = [{"pair": rng.choice(pairs), "op": rng.choice(["buy", "sell"]), "amount": rng.randint(1, 4),
                                     "type": rng.choice(["market", "market", "limit"]),
                                     # the strategy looks at the account before it acts (none of these calls may suspend)
                                     "read": rng.random() < 0.5, "ab": rng.random() < 0.5, "ar": rng.random() < 0.5}
                                    for _ in range(rng.randint(1, 2))]
            handlers.append({"id": hid, "pair": p, "actions": acts, "yields": 0, "via_signal": rng.random() < 0.3})
    order_event_orders = rng.random() < 0.4
    # the order in which the application wires things up
    wiring = [("source", s) for s in range(nsrc)] + [("handler", h["id"]) for h in handlers] + [("signals", 0)]
    rng.shuffle(wiring)
    return {"pairs": pairs, "bars": bars, "handlers": handlers, "wiring": wiring, "order_event_orders": order_event_orders,
            "usd": rng.choice([30, 100, 400, 100000]), "base": rng.choice([0, 3, 1000]), "suspending": False,
            "reindex_every": rng.choice([0, 2, 3]),
            # margin lending with time-based interest: auto-borrow / auto-repay flags of the actions take effect
            "lending": rng.random() < 0.4}


def directed_scenarios() -> list:
    """Histories random generation reaches rarely: equally sized loans taken at different times, of which an auto-repay
    order can only repay one (which one must not depend on anything that varies between runs)."""
    out = []
    for amount, nloans, gap in ((2, 2, 1), (3, 3, 1), (1, 2, 2)):
        acts = {}
        t = 1
        for _ in range(nloans):
            acts[str(t)] = [{"pair": "P0", "op": "sell", "amount": amount, "type": "market", "read": False, "ab": True, "ar": False}]
            t += gap
        acts[str(t + 1)] = [{"pair": "P0", "op": "buy", "amount": amount, "type": "market", "read": False, "ab": False, "ar": True}]
        T = t + 4
        out.append({"pairs": ["P0"], "bars": [[{"t": k, "pair": "P0", "price": 10 + k} for k in range(1, T + 1)]],
                    "handlers": [{"id": 1, "pair": "P0", "actions": acts, "yields": 0, "via_signal": False}],
                    "wiring": [("source", 0), ("handler", 1), ("signals", 0)], "order_event_orders": False,
                    "usd": 1000, "base": 0, "suspending": False, "reindex_every": 0, "lending": True})
    # the margin level depends on the prices of ALL pairs: a loan requested while one pair's bar is handled must be judged
    # with the other pair's price as of the same point of the event order, whatever max_concurrent is
    for amount in (200, 450):
        T = 6
        out.append({"pairs": ["P0", "P1"],
                    "bars": [[{"t": k, "pair": "P0", "price": 10} for k in range(1, T + 1)],
                             [{"t": k, "pair": "P1", "price": 10 if k % 2 else 100} for k in range(1, T + 1)]],
                    "handlers": [{"id": 1, "pair": "P0", "yields": 0, "via_signal": False,
                                  "actions": {str(k): [{"pair": "P0", "op": "buy", "amount": amount, "type": "market", "read": False,
                                                        "ab": True, "ar": False}] for k in range(1, T)}}],
                    "wiring": [("source", 0), ("source", 1), ("handler", 1), ("signals", 0)], "order_event_orders": False,
                    "usd": 0, "base": 0, "init": {"P1": 10}, "suspending": False, "reindex_every": 0, "lending": True})
    # interest charged in the base symbol of ANOTHER pair: an auto-repay order that fills on P0's bar pays interest converted
    # at P1's price as of that point of the event order (P1's bar of the same timestamp comes later), whatever max_concurrent
    for t_sell in (3, 4):
        acts = {"1": [{"pair": "P0", "op": "buy", "amount": 1000, "type": "market", "read": False, "ab": True, "ar": False}],
                str(t_sell): [{"pair": "P0", "op": "sell", "amount": 1000, "type": "market", "read": False, "ab": False, "ar": True}]}
        out.append({"pairs": ["P0", "P1"],
                    "bars": [[{"t": k, "pair": "P0", "price": 10} for k in range(1, 8)],
                             [{"t": k, "pair": "P1", "price": 10 if k % 2 else 100} for k in range(1, 8)]],
                    "handlers": [{"id": 1, "pair": "P0", "yields": 0, "via_signal": False, "actions": acts}],
                    "wiring": [("source", 0), ("source", 1), ("handler", 1), ("signals", 0)], "order_event_orders": False,
                    "usd": 0, "base": 0, "init": {"P1": 1000}, "suspending": False, "reindex_every": 0, "lending": True,
                    "interest_symbol": "P1"})
    # a signal that lists several pairs: the orders compete for the same funds, so the order of the pairs matters and must
    # not depend on the interpreter's hash seed
    for usd in (35, 60):
        acts = {str(k): [{"pair": p, "op": "buy", "amount": 2, "type": "market", "read": False, "ab": False, "ar": False}
                         for p in ("P0", "P1", "P2", "P3")] for k in (1, 2, 3)}
        out.append({"pairs": ["P0", "P1", "P2", "P3"],
                    "bars": [[{"t": k, "pair": p, "price": 10} for k in range(1, 6) for p in ("P0", "P1", "P2", "P3")]],
                    "handlers": [{"id": 1, "pair": "P0", "yields": 0, "via_signal": True, "actions": acts}],
                    "wiring": [("source", 0), ("handler", 1), ("signals", 0)], "order_event_orders": False,
                    "usd": usd, "base": 0, "suspending": False, "reindex_every": 0, "lending": False, "hashseeds": [0, 1, 2, 3]})
    return out


async def run_async(S: dict, maxc: int) -> dict:
    import basana as bs
    from basana.backtesting import exchange as bex, lending, liquidity
    from basana.core import bar as bsbar, event as bsevent
    from basana.core.enums import OrderOperation
    from basana.core.pair import Pair

    logging.disable(logging.CRITICAL)
    d = bs.backtesting_dispatcher(max_concurrent=maxc)
    init = {"USD": Decimal(S["usd"])}
    for p in S["pairs"]:
        init[p] = Decimal(S["base"])
    init.update({k: Decimal(v) for k, v in S.get("init", {}).items()})
    init = {k: v for k, v in init.items() if v or k == "USD"}
    kw = {}
    if S.get("lending"):
        kw["lending_strategy"] = lending.MarginLoans("USD", default_conditions=lending.MarginLoanConditions(
            interest_symbol=S.get("interest_symbol", "USD"), interest_percentage=Decimal(7), interest_period=datetime.timedelta(hours=3),
            min_interest=Decimal(0), margin_requirement=Decimal("0.2")))
    ex = bex.Exchange(d, init, liquidity_strategy_factory=liquidity.InfiniteLiquidity, **kw)
    for sym in init:
        ex.set_symbol_precision(sym, 2 if sym == "USD" else 0)
    if S.get("reindex_every") and hasattr(ex._order_mgr._orders, "_reindex_every"):
        ex._order_mgr._orders._reindex_every = S["reindex_every"]        # harness knob: re-index the open list within short runs
    pair_obj = {p: Pair(p, "USD") for p in S["pairs"]}
    sources = []
    for evs in S["bars"]:
        src = bsevent.FifoQueueEventSource(events=[
            bsbar.BarEvent(T0 + e["t"] * TICK, bsbar.Bar(T0 + (e["t"] - 1) * TICK, pair_obj[e["pair"]], Decimal(e["price"]),
                                                        Decimal(e["price"]), Decimal(e["price"]), Decimal(e["price"]), Decimal(1000)))
            for e in evs])
        sources.append(src)
    orders = {}          # order id -> record
    seq = {"n": 0}

    def tick(dt):
        return int((dt - T0) / TICK)

    async def place(key, a):
        op = OrderOperation.BUY if a["op"] == "buy" else OrderOperation.SELL
        at = tick(d.now())
        flags = dict(auto_borrow=bool(a.get("ab")), auto_repay=bool(a.get("ar"))) if S.get("lending") else {}
        amount = Decimal(a["amount"])
        try:
            if a.get("read"):
                # size the order from what the account holds right now
                bals = await ex.get_balances()
                usd = await ex.get_balance("USD")
                await ex.get_open_orders(pair=pair_obj[a["pair"]])
                await ex.get_orders(is_open=False)
                try:
                    bid, ask = await ex.get_bid_ask(pair_obj[a["pair"]])
                    if a["op"] == "buy" and not flags.get("auto_borrow"):
                        amount = max(Decimal(1), min(amount, (usd.available / ask).to_integral_value(rounding="ROUND_FLOOR")))
                    elif a["op"] == "sell" and not flags.get("auto_borrow"):
                        have = bals[a["pair"]].available if a["pair"] in bals else Decimal(0)
                        amount = max(Decimal(1), min(amount, have))
                except Exception:  # noqa: BLE001 - no price yet
                    pass
            if a["type"] == "market":
                r = await ex.create_market_order(op, pair_obj[a["pair"]], amount, **flags)
            else:
                bid, ask = await ex.get_bid_ask(pair_obj[a["pair"]])
                r = await ex.create_limit_order(op, pair_obj[a["pair"]], amount, ask if a["op"] == "buy" else bid, **flags)
            orders[r.id] = {"key": key, "at": at, "fills": [], "filled": Decimal(0), "quote": Decimal(0)}
        except Exception as e:  # noqa: BLE001
            orders["rej-" + key] = {"key": key + ":rejected:" + type(e).__name__, "at": at, "fills": [], "filled": Decimal(0), "quote": Decimal(0)}

    # strategies may act through a trading signal source (a derived source, as in the samples): the strategy pushes a
    # signal while it handles the bar, a position manager subscribed to the signals places the order
    signals = bs.TradingSignalSource(d)
    pending_signal = {}

    async def on_signal_(sig):
        items = pending_signal.pop(id(sig))
        by_pair = {a["pair"]: (key, a) for key, a in items}
        # one order per pair of the signal, in the order the signal lists its pairs
        for pair, _position in sig.get_pairs():
            key, a = by_pair[pair.base_symbol]
            await place(key, a)

    herrors = []

    def guarded(fn):
        # the dispatcher swallows (logs) what handlers raise: a bug of the HARNESS inside a handler must not pass silently
        async def wrapper(ev):
            try:
                await fn(ev)
            except Exception as e:  # noqa: BLE001
                import traceback
                herrors.append(f"{type(e).__name__}: {e} @ {traceback.format_exc()[-400:]}")
                raise
        return wrapper

    on_signal = guarded(on_signal_)

    def make_handler(h):
        @guarded
        async def on_bar(ev):
            t = tick(ev.when)
            acts = list(enumerate(h["actions"].get(str(t), [])))
            if h.get("via_signal") and acts:
                for _ in range(h["yields"]):
                    await asyncio.sleep(0)
                # one signal carrying every pair the strategy wants to trade now (the last action per pair wins)
                per_pair = {}
                for k, a in acts:
                    per_pair[a["pair"]] = (f"h{h['id']}@{t}#{k}", a)
                from basana.core.event_sources.trading_signal import BaseTradingSignal
                sig = BaseTradingSignal(ev.when)
                for pname, (key, a) in per_pair.items():
                    sig.add_pair(pair_obj[pname], bs.Position.LONG if a["op"] == "buy" else bs.Position.SHORT)
                pending_signal[id(sig)] = list(per_pair.values())
                signals.push(sig)
                return
            for k, a in acts:
                for _ in range(h["yields"]):
                    await asyncio.sleep(0)
                await place(f"h{h['id']}@{t}#{k}", a)
        return on_bar

    async def on_order_event(ev):
        o = orders.get(ev.order.id)
        if o is None:
            return
        if ev.order.amount_filled > o["filled"]:
            o["fills"].append({"when": tick(ev.when), "base": int((ev.order.amount_filled - o["filled"]) * 100),
                               "quote": int((ev.order.quote_amount_filled - o["quote"]) * 100)})
            o["filled"], o["quote"] = ev.order.amount_filled, ev.order.quote_amount_filled
            if S["order_event_orders"] and len(o["fills"]) == 1 and not o["key"].startswith("oe"):
                # react to a fill by placing the opposite order on the same pair
                seq["n"] += 1
                await place(f"oe:{o['key']}", {"pair": S["pairs"][hash_key(o["key"]) % len(S["pairs"])], "op": "sell", "amount": 1, "type": "market"})

    def hash_key(k):
        return sum(map(ord, k))
    hmap = {h["id"]: h for h in S["handlers"]}
    for kind, x in S["wiring"]:
        if kind == "signals":
            signals.subscribe_to_trading_signals(on_signal)
        elif kind == "source":
            ex.add_bar_source(sources[x])
        else:
            ex.subscribe_to_bar_events(pair_obj[hmap[x]["pair"]], make_handler(hmap[x]))
    ex.subscribe_to_order_events(on_order_event)
    outcome = "returned"
    try:
        await asyncio.wait_for(d.run(stop_signals=[]), timeout=120)
    except BaseException as e:  # noqa: BLE001
        outcome = f"raised:{type(e).__name__}"
    logging.disable(logging.NOTSET)
    bals = await ex.get_balances()
    if herrors:
        raise RuntimeError("handler of the harness failed: " + herrors[0])
    return {"maxc": maxc, "outcome": outcome,
            "orders": sorted(({"key": o["key"], "at": o["at"], "fills": o["fills"]} for o in orders.values()), key=lambda o: o["key"]),
            "balances": {s: [int(b.available * 100), int(b.hold * 100), int(b.borrowed * 100)] for s, b in sorted(bals.items())}}


def run_scenario(S: dict) -> dict:
    runs = []
    for maxc in S.get("maxcs", [1, 2, 3, 50]):
        loop = asyncio.new_event_loop()
        try:
            runs.append(loop.run_until_complete(run_async(S, maxc)))
        finally:
            loop.close()
    return {"cfg": S, "runs": runs, "suspending": S["suspending"]}
