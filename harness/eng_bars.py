"""C19 — bars from live trades (RealTimeTradesToBar) and from CSV files.

  MC      TradesToBar.tla: every schedule of pushes (late / out-of-order / current stamps), ticks and flushes in small bounds
  REPLAY  terminal behaviours of the model replayed on the real aggregator's main() under a virtual clock, with tick
          positions mapped to concrete microsecond offsets (first instant, interior, around the last millisecond, last instant)
  TRACE   random trade streams (durations 1 s .. 1 day) and random CSV files (row orders, zero volumes, invalid OHLC, ten
          encodings, three source classes); every recorded history is judged by TLC (BarsTrace.tla: TradesToBarCore / CsvBars)
"""
from __future__ import annotations

import json
import multiprocessing as mp
import os
import random
from typing import List

from . import tlc
from .common import Report, Violation

TB_INVS = ["Inv_C19_ExactlyOneBar", "Inv_C19_AtMostOneBar", "Inv_C19_InOrderAccepted", "Inv_C19_OHLCV", "Inv_C19_BarValid",
           "Inv_C19_EmittedInOrderAtWindowEnd"]
TB_REACH = ["Reach_Dropped", "Reach_TwoBars", "Reach_MultiTradeBar"]

MC_QUICK = [
    dict(W=5, Gap=1, Delay=1, SkipFirst=False, Start=1, MaxNow=11, MaxTrades=3, Back=3),
    dict(W=5, Gap=1, Delay=0, SkipFirst=True, Start=3, MaxNow=11, MaxTrades=3, Back=2),
]
MC_THOROUGH = MC_QUICK + [
    dict(W=5, Gap=1, Delay=2, SkipFirst=False, Start=0, MaxNow=11, MaxTrades=3, Back=5),
    dict(W=6, Gap=1, Delay=3, SkipFirst=True, Start=4, MaxNow=13, MaxTrades=3, Back=3),
]


def consts(c, emit=False):
    return dict(c, Prices={1, 2, 3}, Amounts={1}, Emit=emit)


def _run(job):
    from . import bars_impl
    kind, payload, wd = job
    try:
        return bars_impl.run_trades(payload) if kind == "trades" else bars_impl.run_csv(payload, wd)
    except Exception as e:  # noqa: BLE001
        import traceback
        return {"harness_error": f"{type(e).__name__}: {e}\n{traceback.format_exc()[-1500:]}"}


def run_jobs(jobs):
    with mp.get_context("fork").Pool(tlc.NCPU) as pool:
        out = pool.map(_run, jobs, chunksize=max(1, len(jobs) // (tlc.NCPU * 4)))
    for o in out:
        if "harness_error" in o:
            raise tlc.MachineryError("bars runner failed: " + o["harness_error"])
    return out


def random_trades(rng: random.Random) -> dict:
    W = rng.choice([5, 6, 8])
    delay = rng.choice([0, 1, 2, 3])
    start = rng.randint(0, 2 * W)
    maxnow = start + rng.choice([2, 3, 5]) * W
    pushes, at = [], start
    for _ in range(rng.randint(0, 8)):
        at = min(maxnow - 1, at + rng.choice([0, 0, 1, 1, 2, W]))
        mode = rng.random()
        w = at if mode < 0.55 else max(0, at - rng.randint(1, 3)) if mode < 0.85 else max(0, at - rng.randint(W, 2 * W))
        pushes.append({"at": at, "w": w, "p": rng.randint(1, 50), "a": 1})
    return {"W": W, "delay": delay, "skipFirst": rng.random() < 0.5, "start": start,
            "duration_s": rng.choice([1, 5, 60, 86400]), "pushes": pushes, "maxnow": maxnow}


def random_csv(rng: random.Random, i: int) -> dict:
    from .bars_impl import ENCODINGS
    flavour = rng.choice(["bitstamp", "bitstamp", "binance", "yahoo"])
    n = rng.randint(0, 8)
    rows, t = [], 0
    for _ in range(n):
        t += rng.choice([1, 1, 2, 5])
        o, c = rng.randint(1, 500), rng.randint(1, 500)
        h, l = max(o, c) + rng.choice([0, 0, 7]), max(1, min(o, c) - rng.choice([0, 0, 5]))
        if rng.random() < 0.06:
            h, l = l, h + 1                      # inconsistent row: must be refused
        v = 0 if (flavour != "yahoo" and rng.random() < 0.2) else rng.randint(1, 10**6)
        rows.append({"t": t, "o": o, "h": h, "l": l, "c": c, "v": v})
    if rng.random() < 0.5:
        rng.shuffle(rows)
    return {"id": i, "rows": rows, "sort": rng.random() < 0.6, "period": "1d" if flavour == "yahoo" else rng.choice(["1m", "1h", "1d"]),
            "flavour": flavour, "encoding": rng.choice(ENCODINGS), "scale": rng.choice([1, 100, 10**8]),
            "tz_min": rng.choice([0, 0, -300, 120, 330, -570])}


def check(rep: Report, tier: str, seed: int, prop: str = None):
    rng = random.Random(seed * 7919 + 19)
    quick = tier == "quick"
    with tlc.scratch() as wd:
        behaviours = []
        for c in (MC_QUICK if quick else MC_THOROUGH):
            res = tlc.run("TradesToBar", tlc.cfg_text(consts(c), invariants=TB_INVS), workdir=wd)
            rep.add_tlc("TradesToBar/MC", res, c, "all schedules of pushes (stamps now-Back..now), ticks and flushes")
            if not res.ok:
                rep.violation(Violation("C19", res.violated, "mc", {"constants": c, "trace": (res.counterexample or [])[-1:]},
                                        discriminator="model"))
            # behaviour generator (simulation): complete runs up to MaxNow
            sim = tlc.run("TradesToBar", tlc.cfg_text(consts(c, emit=True), invariants=["EmitInv"]), workdir=wd, mode="sim",
                          sim_num=40 if quick else 400, sim_depth=60, seed=seed + 5, workers=4, dump_trace=False)
            behaviours += [(c, h) for h in sim.emitted]
        if not quick:
            for r in TB_REACH:
                res = tlc.run("TradesToBar", tlc.cfg_text(consts(MC_QUICK[0]), invariants=[r]), workdir=wd, dump_trace=False)
                if res.ok:
                    raise tlc.MachineryError(f"reachability probe {r} unreachable")
            bad = dict(MC_QUICK[0], Gap=2)
            res = tlc.run("TradesToBar", tlc.cfg_text(consts(bad), invariants=TB_INVS), workdir=wd, dump_trace=False)
            if res.ok:
                raise tlc.MachineryError("must-fail config (window end 2 ticks before the next window) was accepted: predicates are blind")
            rep.extra["must_fail"] = {"Gap": 2, "violated": res.violated}
        rep.exhaustive = True

        jobs, expected = [], []
        for c, h in behaviours:
            for dur in ([1, 60] if quick else [1, 5, 60, 86400]):
                jobs.append(("trades", {"W": c["W"], "delay": c["Delay"], "skipFirst": c["SkipFirst"], "start": c["Start"],
                                        "duration_s": dur, "maxnow": c["MaxNow"],
                                        "pushes": [{"at": p["at"], "w": p["w"], "p": p["p"], "a": p["a"]} for p in h["pushes"]]}, wd))
                expected.append(h)
        n_replay = len(jobs)
        for i in range(300 if quick else 5000):
            jobs.append(("trades", random_trades(rng), wd))
        n_trades = len(jobs)
        for i in range(300 if quick else 5000):
            jobs.append(("csv", random_csv(rng, i), wd))
        runs = run_jobs(jobs)
        # judge with TLC
        recs = []
        for i, r in enumerate(runs, start=1):
            if r["kind"] == "trades":
                recs.append({"id": i, "kind": "trades", "W": r["W"], "delay": r["delay"], "H": r["H"]})
            else:
                recs.append({"id": i, "kind": "csv", "rows": r["rows"], "sort": r["sort"], "period": r["period"],
                             "events": r["events"], "error": r["error"]})
        from .eng_dispatcher import tlc_batches
        verd, results = tlc_batches("BarsTrace", recs, wd, "AllConsumed", min(tlc.NCPU, max(1, len(recs) // 40)))
        agg = results[0]
        agg.distinct, agg.generated = sum(r.distinct for r in results), sum(r.generated for r in results)
        rep.add_tlc("BarsTrace/TRACE", agg, None, f"{len(recs)} implementation histories")
        for i, r in enumerate(runs, start=1):
            v = verd.get(i)
            if v is None:
                raise tlc.MachineryError(f"no verdict for history {i}")
            if i <= n_replay:
                rep.replays += 1
            else:
                rep.traces += 1
            rep.steps += len(r["H"]["pushes"]) + len(r["H"]["bars"]) if r["kind"] == "trades" else len(r["rows"])
            rep.distinct(hash(json.dumps(r["script"], sort_keys=True, default=str)))
            failing = list(v["failing"])
            if r["kind"] == "trades" and r["offgrid"]:
                failing.append("C19_EmittedInOrderAtWindowEnd")
            if failing:
                clause = sorted(failing)[0]
                what = r["script"]
                disc = clause
                if r["kind"] == "csv":
                    disc = f"{clause}/{what['encoding']}" if r["error"] and not any(
                        not (x["l"] <= x["o"] <= x["h"] and x["l"] <= x["c"] <= x["h"]) for x in what["rows"] if x["v"]) else clause
                rep.violation(Violation("C19", clause, "replay" if i <= n_replay else "trace",
                                        {"failing": sorted(failing), "script": what, "history": r.get("H") or
                                         {"events": r["events"], "error": r["error"], "exc": r.get("exc")}},
                                        script={"kind": r["kind"], "script": what}, discriminator=disc))
            elif i <= n_replay:
                h = expected[i - 1]
                same = (r["H"]["bars"] == [{k: b[k] for k in ("begin", "end", "o", "h", "l", "c", "v", "ids", "at")} for b in h["bars"]]
                        and [p["accepted"] for p in r["H"]["pushes"]] == [p["accepted"] for p in h["pushes"]])
                if not same:
                    rep.drift.append({"history": i, "script": r["script"], "impl": r["H"], "spec": h})
        rep.sample({"leg": "replay", "script": runs[0]["script"], "H": runs[0].get("H")})
        rep.sample({"leg": "trace-csv", "script": {k: v for k, v in runs[-1]["script"].items() if k != "rows"},
                    "rows": runs[-1]["rows"][:3], "events": runs[-1]["events"][:3]})
    rep.assumptions += [
        "RealTimeTradesToBar.main() runs under a virtual-time event loop; basana.core.dt.utc_now is substituted by the harness",
        "trade amounts are distinct powers of two so that a bar's volume identifies the trades it contains",
        "tick positions of a window are mapped to microsecond offsets {0, interior, D-1001us, D-1000us, D-500us, D-1us}",
        "Yahoo CSV rows always carry non-zero volume (that source does not skip zero-volume rows; the statement's clause is about sources that do)",
    ]
    rep.extra["rule"] = "distinct = distinct scripts (trade streams / csv files with encoding, sort flag and source class)"


def replay(script: dict) -> int:
    from . import bars_impl
    with tlc.scratch() as wd:
        os.makedirs(os.path.join(wd, "specs"), exist_ok=True)
        r = bars_impl.run_trades(script["script"]) if script["kind"] == "trades" else bars_impl.run_csv(script["script"], wd)
        rec = ({"id": 1, "kind": "trades", "W": r["W"], "delay": r["delay"], "H": r["H"]} if r["kind"] == "trades" else
               {"id": 1, "kind": "csv", "rows": r["rows"], "sort": r["sort"], "period": r["period"], "events": r["events"], "error": r["error"]})
        import shutil
        shutil.rmtree(os.path.join(wd, "specs"))
        from .eng_dispatcher import tlc_batches
        shutil.copytree(tlc.SPECS, os.path.join(wd, "specs"))
        verd, _ = tlc_batches("BarsTrace", [rec], wd, "AllConsumed", 1)
    print(json.dumps({k: v for k, v in r.items() if k != "script"}, default=str)[:3000])
    print("verdict:", verd[1])
    return 1 if verd[1]["failing"] else 0
