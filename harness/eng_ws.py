"""C18 — websocket channels stay subscribed across faults and route correctly.

  MC      WsClient.tla: main() with its message / subscribe / reconnect tasks against a fault-injecting peer and late
          registrations; safety invariants and the two liveness properties (weak fairness on the client's steps)
  TRACE   seeded random fault scripts against the real generic, Binance and Bitstamp (public / private) clients and a
          scripted peer under virtual time; every recorded run is judged by TLC with WsProps.tla (bounded response)
"""
from __future__ import annotations

import json
import multiprocessing as mp
import random

from . import tlc
from .common import Report, Violation

SAFETY = ["Inv_C18_Routing", "Inv_C18_Backoff", "Inv_C18_OnlyRegistered", "Inv_C18_PendingHasWakeup"]
LIVE = ["Live_C18_ResubscribeOnLive", "Live_C18_Converges"]
MC = [
    dict(Channels={"a", "b"}, InitRegistered={"a"}, MaxFaults=2, MaxConns=3, Backoff=2, MaxNow=6),
    dict(Channels={"a", "b"}, InitRegistered={"a", "b"}, MaxFaults=3, MaxConns=3, Backoff=1, MaxNow=4),
]
MC_THOROUGH = MC + [dict(Channels={"a", "b", "c"}, InitRegistered={"a"}, MaxFaults=3, MaxConns=4, Backoff=2, MaxNow=8)]
OPS = ["close", "drop", "garbage", "error_reply", "request_reconnect", "key_expired", "data", "data", "register", "refuse_next",
       "fail_next_key", "delay_token", "fail_next_keepalive"]


def random_W(rng: random.Random) -> dict:
    fl = rng.choice(["generic", "generic", "binance", "binance", "bitstamp_public", "bitstamp_private"])
    pool = ["spot_user_data", "btcusdt@trade", "ethusdt@depth10"] if fl == "binance" else ["c1", "c2", "c3"]
    late = [c for c in ["late1", "late2"]]
    init = rng.sample(pool, rng.randint(0 if fl == "generic" else 1, len(pool)))
    script, t = [], 0
    for _ in range(rng.randint(0, 10)):
        t += rng.choice([300, 1500, 2500, 4000, 9000])
        op = rng.choice(OPS)
        st = {"at": t, "op": op}
        if op in ("data", "key_expired"):
            if not init:
                continue
            st["ch"] = rng.choice(init)
            if op == "key_expired" and fl == "binance":
                st["ch"] = "spot_user_data" if "spot_user_data" in init else st["ch"]
                if st["ch"] != "spot_user_data":
                    continue
            if op == "key_expired" and fl.startswith("bitstamp"):
                continue
        if op == "register":
            st["ch"] = rng.choice(late)
        if op == "delay_token":
            st["ms"] = rng.choice([100, 400, 900])
            if rng.random() < 0.6:
                script.append(st)
                st = {"at": t + rng.choice([50, 200]), "op": rng.choice(["register", "key_expired"]), "ch": rng.choice(late)}
                if st["op"] == "key_expired":
                    if not init or fl.startswith("bitstamp"):
                        continue
                    st["ch"] = "spot_user_data" if (fl == "binance" and "spot_user_data" in init) else init[0]
                    if fl == "binance" and st["ch"] != "spot_user_data":
                        continue
        script.append(st)
    return {"flavour": fl, "channels_init": init, "backoff_s": rng.choice([1, 2, 5]), "keepalive_s": rng.choice([20, 30]),
            "script": script, "stop_at": t + rng.choice([20000, 70000]), "bound_ms": 1000, "slack_ms": 300}


def _run(W):
    from . import ws_impl
    try:
        return ws_impl.run_ws(W)
    except Exception as e:  # noqa: BLE001
        import traceback
        return {"harness_error": f"{type(e).__name__}: {e}\n{traceback.format_exc()[-1500:]}", "cfg": W}


def check(rep: Report, tier: str, seed: int, prop: str = None):
    rng = random.Random(seed * 15485863 + 18)
    quick = tier == "quick"
    with tlc.scratch() as wd:
        for c in (MC if quick else MC_THOROUGH):
            consts = dict(c, ResubWakes=True)
            res = tlc.run("WsClient", tlc.cfg_text(consts, invariants=SAFETY, properties=LIVE), workdir=wd, timeout=2400)
            rep.add_tlc("WsClient/MC", res, {k: sorted(v) if isinstance(v, set) else v for k, v in consts.items()},
                        "safety + liveness under weak fairness of the client's steps; the peer stops after MaxFaults faults")
            if not res.ok:
                rep.violation(Violation("C18", res.violated, "mc", {"constants": str(c), "trace": (res.counterexample or [])[-2:]},
                                        discriminator="model"))
        if not quick:
            res = tlc.run("WsClient", tlc.cfg_text(dict(MC[0], ResubWakes=False), invariants=SAFETY, properties=LIVE), workdir=wd,
                          dump_trace=False)
            if res.ok:
                raise tlc.MachineryError("must-fail config (schedule_resubscription without wake-up) was accepted")
            rep.extra["must_fail"] = {"ResubWakes": False, "violated": res.violated}
        rep.exhaustive = True

        jobs = [random_W(rng) for _ in range(300 if quick else 4000)]
        # a slow subscription (listen key / auth token request in flight) while another channel is registered or a
        # re-subscription is requested
        for fl, ch0, late in (("binance", "spot_user_data", "btcusdt@trade"), ("bitstamp_private", "c1", "c2"), ("binance", "spot_user_data", None)):
            for delay in (400, 800):
                for off in (100, 300):
                    sc = [{"at": 0, "op": "delay_token", "ms": delay}]
                    if late:
                        sc.append({"at": 1000 + off, "op": "register", "ch": late})
                    else:
                        sc += [{"at": 6000, "op": "delay_token", "ms": delay}, {"at": 6001, "op": "key_expired", "ch": ch0},
                               {"at": 6001 + off, "op": "register", "ch": "late1"}]
                    jobs.append({"flavour": fl, "channels_init": [ch0], "backoff_s": 1, "keepalive_s": 30, "bound_ms": 1500, "slack_ms": 300,
                                 "script": sc, "stop_at": 40000})
        # a keep-alive request that fails once: the key must keep being refreshed afterwards
        for ka in (20, 30):
            jobs.append({"flavour": "binance", "channels_init": ["spot_user_data", "btcusdt@trade"], "backoff_s": 1, "keepalive_s": ka,
                         "bound_ms": 1000, "slack_ms": 300, "script": [{"at": 3000, "op": "fail_next_keepalive"}], "stop_at": 1000 * ka * 5})
        # regression scenario of D11: listen key expiry on a connection that stays up
        for fl, ch in (("generic", "c1"), ("binance", "spot_user_data")):
            jobs.append({"flavour": fl, "channels_init": [ch], "backoff_s": 1, "keepalive_s": 30, "bound_ms": 1000, "slack_ms": 300,
                         "script": [{"at": 5000, "op": "key_expired", "ch": ch}, {"at": 9000, "op": "data", "ch": ch}], "stop_at": 80000})
        with mp.get_context("fork").Pool(tlc.NCPU) as pool:
            runs = pool.map(_run, jobs, chunksize=max(1, len(jobs) // (tlc.NCPU * 4)))
        for r in runs:
            if "harness_error" in r:
                raise tlc.MachineryError("websocket runner failed: " + r["harness_error"] + json.dumps(r["cfg"])[:600])
        recs = [dict({k: v for k, v in r.items() if k != "kind"}, id=i) for i, r in enumerate(runs, start=1)]
        from .eng_dispatcher import tlc_batches
        verd, results = tlc_batches("WsTrace", recs, wd, "AllConsumed", min(tlc.NCPU, max(1, len(recs) // 40)))
        agg = results[0]
        agg.distinct, agg.generated = sum(r.distinct for r in results), sum(r.generated for r in results)
        rep.add_tlc("WsTrace/TRACE", agg, None, f"{len(recs)} recorded runs")
        for i, r in enumerate(runs, start=1):
            v = verd.get(i)
            if v is None:
                raise tlc.MachineryError(f"no verdict for run {i}")
            rep.traces += 1
            rep.steps += len(r["attempts"]) + sum(len(c["frames"]) for c in r["conns"]) + len(r["events"])
            rep.distinct(hash(json.dumps(r["cfg"], sort_keys=True)))
            if v["failing"]:
                clause = sorted(v["failing"])[0]
                rep.violation(Violation("C18", clause, "trace",
                                        {"failing": sorted(v["failing"]), "cfg": r["cfg"], "attempts": r["attempts"], "conns": r["conns"],
                                         "resub": r["resub"], "registered": r["registered"], "keepalive": r["keepalive"][:10],
                                         "outcome": r["outcome"]},
                                        script={"kind": "ws", "cfg": r["cfg"]}, discriminator=f"{clause}/{r['cfg']['flavour']}"))
        rep.sample({"leg": "trace", "cfg": runs[0]["cfg"], "attempts": runs[0]["attempts"], "conns": runs[0]["conns"][:3]})
    rep.assumptions += [
        "aiohttp's websocket is represented by a scripted peer implementing ws_connect/async iteration/closed/close/send_str",
        "virtual time; basana.core.websockets.time and basana.core.dt.utc_now are substituted by the harness",
        "liveness on the implementation is bounded response (1 s of virtual time after the trigger, connection still up)",
        "Bitstamp private channel messages use the registered channel name (the -<user id> suffix cannot be settled offline)",
    ]
    rep.extra["rule"] = "distinct = distinct (client flavour, initial channels, fault script)"


def replay(script: dict) -> int:
    from . import ws_impl
    r = ws_impl.run_ws(script["cfg"])
    print(json.dumps({k: v for k, v in r.items() if k != "cfg"})[:4000])
    return 0
