"""C20 — token bucket.  TokenBucket.tla (MC) + replay of every terminal MC behaviour into the real
TokenBucketLimiter + TLC validation (TokenBucketTrace.tla) of traces recorded from the real limiter."""
from __future__ import annotations

import json
import os
import random
from fractions import Fraction

from . import tlc
from .common import Report, Violation

INVS = ["Inv_C20_WindowBound", "Inv_C20_NonNegativeWait", "Inv_C20_SendsMonotone", "Inv_C20_RefillCapped",
        "Inv_C20_BurstExact", "Inv_C20_NoOverThrottle"]
REACH = ["Reach_Debt", "Reach_Cap", "Reach_Burst"]


class FakeTime:
    def __init__(self, t=0.0):
        self.t = t

    def time(self):
        return self.t


def real_limiter(tpp: float, period: float, init: float, clock: FakeTime):
    import basana.core.token_bucket as tbm
    tbm.time = clock            # substituted from the harness process; /repo is not changed
    return tbm.TokenBucketLimiter(tpp, period, init)


def to_waitn(wait_s: float, tick: float, tpp_num: int):
    """Project a float wait onto the spec grid (1/TppNum ticks). Returns (waitN, offgrid)."""
    x = wait_s / tick * tpp_num
    n = round(x)
    off = abs(x - n) > 1e-6 * max(1.0, abs(x))
    return int(n), off


def run_impl(cfg: dict, arrivals, tick: float, base: float = 1000.0, reads: bool = False, rng=None):
    clock = FakeTime(base)
    steps = []
    try:
        lim = real_limiter(cfg["tppNum"] / cfg["tppDen"], cfg["period"] * tick, cfg["init"], clock)
    except Exception as e:  # noqa: BLE001 - a limiter that cannot be built for legal parameters answers no request
        return [{"at": at, "waitN": -1, "offgrid": True, "raw": -1.0, "cancelled": False, "tokens": -1,
                 "crash": f"{type(e).__name__}: {e}"} for at in arrivals]
    for at in arrivals:
        clock.t = base + at * tick
        tokens = -1
        try:
            if reads and rng is not None and rng.random() < 0.5:
                tokens = lim.tokens                     # looking at the pool must not change it
                _ = lim.tokens_per_period, lim.period_duration
            w = lim.consume()
        except Exception as e:  # noqa: BLE001 - consume() must answer with a wait; raising is judged as a wrong answer
            steps.append({"at": at, "waitN": -1, "offgrid": True, "raw": -1.0, "cancelled": False, "tokens": -1,
                          "crash": f"{type(e).__name__}: {e}"})
            continue
        n, off = to_waitn(w, tick, cfg["tppNum"])
        steps.append({"at": at, "waitN": n, "offgrid": off, "raw": w, "cancelled": False, "tokens": tokens})
    return steps


def run_impl_wait(cfg: dict, arrivals, tick: float, base: float = 1000.0):
    """Callers use `await limiter.wait()` under a virtual-time loop; some are cancelled while they sleep, some look at
    `limiter.tokens` first.  arrivals: [{at, cancel_after (ticks, or None), read}].  The send time of a caller is when its
    wait() returned."""
    import asyncio
    from . import vloop
    import basana.core.token_bucket as tbm
    steps = [None] * len(arrivals)

    async def scenario(loop):
        clock = type("T", (), {"time": staticmethod(lambda: base + loop.time())})
        saved = tbm.time
        tbm.time = clock
        try:
            try:
                lim = tbm.TokenBucketLimiter(cfg["tppNum"] / cfg["tppDen"], cfg["period"] * tick, cfg["init"])
            except Exception as e:  # noqa: BLE001
                for i, a in enumerate(arrivals):
                    steps[i] = {"at": a["at"], "waitN": -1, "offgrid": True, "cancelled": False, "tokens": -1, "raw": -1.0,
                                "crash": f"{type(e).__name__}: {e}"}
                return
            tasks = []

            async def caller(i, a):
                tokens = lim.tokens if a.get("read") else -1
                t0 = loop.time()
                try:
                    await lim.wait()
                except asyncio.CancelledError:
                    steps[i] = {"at": a["at"], "waitN": 0, "offgrid": False, "cancelled": True, "tokens": tokens, "raw": -1.0}
                    raise
                except Exception as e:  # noqa: BLE001 - wait() must wait, not raise
                    steps[i] = {"at": a["at"], "waitN": -1, "offgrid": True, "cancelled": False, "tokens": -1, "raw": -1.0,
                                "crash": f"{type(e).__name__}: {e}"}
                    return
                n, off = to_waitn(loop.time() - t0, tick, cfg["tppNum"])
                steps[i] = {"at": a["at"], "waitN": n, "offgrid": off, "cancelled": False, "tokens": tokens, "raw": loop.time() - t0}

            async def canceller(task, when):
                await vloop.sleep_until(loop, when)
                if not task.done():
                    task.cancel()
            for i, a in enumerate(arrivals):
                await vloop.sleep_until(loop, a["at"] * tick)
                t = asyncio.ensure_future(caller(i, a))
                await asyncio.sleep(0)                    # the caller runs up to its sleep: arrival order = call order
                tasks.append(t)
                if a.get("cancel_after") is not None:
                    tasks.append(asyncio.ensure_future(canceller(t, (a["at"] + a["cancel_after"]) * tick)))
            await asyncio.gather(*tasks, return_exceptions=True)
        finally:
            tbm.time = saved
    vloop.run(scenario)
    return steps


MC_GRID_QUICK = [
    dict(TppNum=2, TppDen=1, Period=3, InitTok=1, MaxNow=8, MaxReq=6),
    dict(TppNum=1, TppDen=2, Period=2, InitTok=0, MaxNow=9, MaxReq=5),
    dict(TppNum=5, TppDen=1, Period=7, InitTok=10, MaxNow=8, MaxReq=7),
]
MC_GRID_THOROUGH = MC_GRID_QUICK + [
    dict(TppNum=1, TppDen=1, Period=1, InitTok=0, MaxNow=10, MaxReq=7),
    dict(TppNum=1, TppDen=1, Period=1, InitTok=2, MaxNow=10, MaxReq=7),
    dict(TppNum=2, TppDen=1, Period=1, InitTok=4, MaxNow=8, MaxReq=8),
    dict(TppNum=3, TppDen=2, Period=2, InitTok=3, MaxNow=10, MaxReq=7),
    dict(TppNum=5, TppDen=1, Period=2, InitTok=0, MaxNow=6, MaxReq=9),
    dict(TppNum=1, TppDen=3, Period=7, InitTok=1, MaxNow=12, MaxReq=5),
]


def check(rep: Report, tier: str, seed: int):
    rng = random.Random(seed)
    grid = MC_GRID_QUICK if tier == "quick" else MC_GRID_THOROUGH
    with tlc.scratch() as wd:
        # ---- leg 1: exhaustive model checking + behaviour generation -----------------------------------
        behaviours = []
        for consts in grid:
            c = dict(consts, EmitBehaviours=True)
            res = tlc.run("TokenBucket", tlc.cfg_text(c, invariants=INVS + ["EmitInv"]), workdir=wd, coverage=True)
            rep.add_tlc("TokenBucket/MC", res, consts, "all arrival sequences of <= MaxReq requests over <= MaxNow ticks")
            if not res.ok:
                rep.violation(Violation("C20", res.violated, "mc", {"constants": consts, "trace": res.counterexample},
                                        discriminator="model"))
                continue
            if res.uncovered_actions():
                raise tlc.MachineryError(f"vacuous MC run, actions never taken: {res.uncovered_actions()}")
            behaviours.append((consts, res.emitted))
        # anti-vacuity: the antecedents of the implications are reachable
        c = dict(grid[0], EmitBehaviours=False)
        for r in REACH:
            res = tlc.run("TokenBucket", tlc.cfg_text(c, invariants=[r]), workdir=wd, coverage=False)
            if res.ok:
                raise tlc.MachineryError(f"reachability probe {r} not reachable: invariants may be vacuous")
        rep.extra["reachability_probes"] = REACH
        rep.exhaustive = True
        # the unbounded argument: TLAPS proves  Spec => []IndInv  and  IndInv => WindowPair  for ALL parameters, times and
        # histories of the model built on the same Consume operator (specs/proofs/TokenBucketProof.tla); ~6 s
        from . import tlaps
        pr = tlaps.prove("TokenBucketProof", wd)
        rep.extra["tlaps"] = pr
        if not pr["proved"]:
            raise tlc.MachineryError(f"TLAPS proof of the window bound no longer checks: {pr}")

        # ---- leg 2: spec -> code, every terminal MC behaviour replayed on the real limiter -------------
        cap = 4000 if tier == "quick" else 10**9
        for consts, behs in behaviours:
            cfg = {"tppNum": consts["TppNum"], "tppDen": consts["TppDen"], "period": consts["Period"],
                   "init": consts["InitTok"]}
            if len(behs) > cap:
                behs = rng.sample(behs, cap)
            for calls in behs:
                arrivals = [c["at"] for c in calls]
                steps = run_impl(cfg, arrivals, tick=1.0)
                rep.replays += 1
                rep.steps += len(steps)
                rep.distinct(("replay", tuple(arrivals), tuple(cfg.values())))
                for i, (c, s) in enumerate(zip(calls, steps)):
                    if s["offgrid"] or s["waitN"] != c["waitN"]:
                        rep.violation(Violation(
                            "C20", "Step_Consume", "replay",
                            {"config": cfg, "arrivals": arrivals, "step": i + 1, "spec_waitN": c["waitN"],
                             "impl_wait_s": s["raw"], "impl_waitN": s["waitN"]},
                            script={"kind": "tokenbucket", "config": cfg, "arrivals": arrivals, "tick": 1.0},
                            discriminator="wait_differs_from_spec"))
                        break
            if behs:
                rep.sample({"leg": "replay", "config": cfg, "calls": behs[0]})

        # ---- leg 3: code -> spec, random configurations far beyond the MC constants --------------------
        n_traces = 400 if tier == "quick" else 6000
        traces = gen_traces(rng, n_traces)
        verdicts = validate(traces, wd, rep)
        for tr in traces:
            v = verdicts.get(tr["id"])
            if v is None:
                raise tlc.MachineryError(f"no verdict for trace {tr['id']}")
            rep.traces += 1
            rep.steps += len(tr["steps"])
            rep.distinct(("trace", tr["tppNum"], tr["tppDen"], tr["period"], tr["init"], tuple(s["at"] for s in tr["steps"])))
            if v["viol"]:
                first = min(v["viol"], key=lambda x: (x["step"], x["clause"]))
                clauses = sorted({x["clause"] for x in v["viol"] if x["step"] == first["step"]})
                rep.violation(Violation(
                    "C20", clauses[0], "trace",
                    {"trace_id": tr["id"], "step": first["step"], "clauses": clauses,
                     "config": {k: tr[k] for k in ("tppNum", "tppDen", "period", "init", "tick")},
                     "impl_step": tr["steps"][first["step"] - 1]},
                    script={"kind": "tokenbucket", "config": {k: tr[k] for k in ("tppNum", "tppDen", "period", "init")},
                            "arrivals": [s["at"] for s in tr["steps"]], "tick": tr["tick"]},
                    discriminator="wait_differs_from_spec"))
        rep.sample({"leg": "trace", "trace": {k: traces[0][k] for k in ("tppNum", "tppDen", "period", "init", "tick")},
                    "steps": traces[0]["steps"][:6]})

        # ---- binding self-test: a corrupted wait must be rejected in the expected clause ----------------
        clean = [tr for tr in traces if not verdicts[tr["id"]]["viol"] and len(tr["steps"]) >= 2][:3]
        if len(clean) == 3:     # only meaningful on traces the spec accepts
            bad = json.loads(json.dumps(clean))
            for i, tr in enumerate(bad):
                tr["id"] = 10**6 + i
            victim = bad[0]
            victim["steps"][1]["waitN"] += 1
            v = validate(bad, wd, None)
            got = {x["clause"] for x in v[victim["id"]]["viol"] if x["step"] == 2}
            others = [t["id"] for t in bad if t is not victim and v[t["id"]]["viol"]]
            if "Step_Consume" not in got or others:
                raise tlc.MachineryError(f"binding self-test failed: corrupted step judged {got}, collateral {others}")
            rep.extra["binding_selftest"] = {"corrupted": "waitN+1 at step 2", "rejected_in": sorted(got)}
    rep.assumptions += [
        "time.time() as seen by basana.core.token_bucket is substituted by the harness (virtual clock)",
        "float waits are projected onto the rational grid 1/TppNum ticks with relative tolerance 1e-6; off-grid is a failing clause",
    ]
    rep.extra["rule"] = ("replay: every terminal behaviour (arrival sequence) of each MC config, distinct by (config, arrivals); "
                         "trace: seeded random (tpp fraction, period, init, tick length, arrivals) distinct by the same key")


def gen_traces(rng: random.Random, n: int):
    traces = []
    for i in range(n):
        tpp = Fraction(rng.randint(1, 12), rng.choice([1, 1, 1, 2, 3, 4]))
        cfg = {"tppNum": tpp.numerator, "tppDen": tpp.denominator, "period": rng.choice([1, 1, 2, 3, 5, 7, 10, 60]),
               "init": rng.choice([0, 0, 1, 2, 5, 20])}
        tick = rng.choice([1.0, 1.0, 0.5, 0.25, 0.1, 3.7, 0.013, 0.001, 0.0001])      # rates from 0.01/s to 10^5/s
        at, arrivals = 0, []
        mode = rng.choice(["burst", "idle", "overload", "mixed"])
        for _ in range(rng.randint(1, 40)):
            if mode == "burst":
                at += rng.choice([0, 0, 0, 1])
            elif mode == "idle":
                at += rng.choice([0, 1, 5, 50, 500])
            elif mode == "overload":
                at += rng.choice([0, 0, 1])
            else:
                at += rng.choice([0, 0, 1, 2, 3, 30])
            arrivals.append(at)
        if i % 4 == 3:
            # callers await wait(); a third of those that have to sleep are cancelled mid-sleep, some read `tokens` first
            arr = [{"at": a, "cancel_after": rng.choice([0, 1, 2]) if rng.random() < 0.3 else None, "read": rng.random() < 0.4}
                   for a in arrivals]
            steps = run_impl_wait(cfg, arr, tick)
        else:
            steps = run_impl(cfg, arrivals, tick, reads=rng.random() < 0.5, rng=rng)
        traces.append(dict(cfg, id=i + 1, tick=tick, steps=steps))
    return traces


def validate(traces, wd, rep):
    path = os.path.join(wd, f"tb-{random.getrandbits(40):x}.ndjson")
    with open(path, "w") as f:
        for tr in traces:
            f.write(json.dumps({k: tr[k] for k in ("id", "tppNum", "tppDen", "period", "init")}
                               | {"steps": [{"at": s["at"], "waitN": s["waitN"], "offgrid": s["offgrid"], "cancelled": bool(s.get("cancelled")),
                                            "tokens": int(s.get("tokens", -1))} for s in tr["steps"]]}) + "\n")
    res = tlc.run("TokenBucketTrace", tlc.cfg_text(postcondition="AllConsumed"), workdir=wd, mode="trace",
                  env={"TRACE_FILE": path})
    if not res.ok:
        raise tlc.MachineryError("trace validation run failed: " + res.tail[-1500:])
    if rep is not None:
        rep.add_tlc("TokenBucketTrace/TRACE", res, None, f"{len(traces)} implementation traces")
    os.unlink(path)
    return {v["id"]: v for v in res.emitted}


def replay(script: dict) -> int:
    """Re-execute a violation script against /repo and print the waits next to the spec's."""
    cfg, arrivals, tick = script["config"], script["arrivals"], script.get("tick", 1.0)
    steps = run_impl(cfg, arrivals, tick)
    # reference: the spec's rule evaluated in exact rationals
    K = cfg["period"] * cfg["tppDen"]
    cap = cfg["tppNum"] * cfg["period"]
    tok, last, bad = cfg["init"] * K, 0, 0
    for s in steps:
        a = min(tok + (s["at"] - last) * cfg["tppNum"], cap)
        tok, last = a - K, s["at"]
        exp = max(0, -tok)
        flag = "" if (exp == s["waitN"] and not s["offgrid"]) else "   <-- differs"
        bad += bool(flag)
        print(f"at={s['at']:>6} impl_wait={s['raw']:.9f}s impl_waitN={s['waitN']} spec_waitN={exp}{flag}")
    return 1 if bad else 0
