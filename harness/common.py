"""Shared plumbing of the checks: result accumulation, evidence files, known findings, replays."""
from __future__ import annotations

import hashlib
import json
import os
import sys
import time
from typing import Any, Dict, List, Optional

VERIF = os.path.dirname(os.path.dirname(os.path.abspath(__file__)))
REPO = os.environ.get("VERIF_REPO", "/repo")
# evaluation of seeded changes redirects evidence / replays so that committed evidence only ever comes from /repo itself
EVIDENCE = os.environ.get("VERIF_EVIDENCE_DIR", os.path.join(VERIF, "evidence"))
REPLAYS = os.environ.get("VERIF_REPLAYS_DIR", os.path.join(VERIF, "replays"))
KNOWN = os.path.join(VERIF, "known_findings.json")

if REPO not in sys.path:
    sys.path.insert(0, REPO)


def seed_from_env() -> int:
    try:
        return int(os.environ.get("VERIF_SEED", "0"))
    except ValueError:
        return 0


def load_known() -> List[dict]:
    if not os.path.exists(KNOWN):
        return []
    return json.load(open(KNOWN)).get("findings", [])


class Violation:
    def __init__(self, prop: str, clause: str, leg: str, detail: Dict[str, Any], script: Any = None,
                 discriminator: Optional[str] = None):
        self.prop, self.clause, self.leg, self.detail, self.script = prop, clause, leg, detail, script
        # what identifies the failing history class for known-finding matching
        self.discriminator = discriminator

    def key(self) -> dict:
        return {"clause": self.clause, "discriminator": self.discriminator}


class Report:
    """Accumulates what one check run did; writes evidence; decides the exit code."""

    def __init__(self, prop: str, tier: str, seed: int, level: str = "model_checking"):
        self.prop, self.tier, self.seed, self.level = prop, tier, seed, level
        self.t0 = time.time()
        self.states = 0
        self.transitions = 0
        self.traces = 0          # implementation traces validated by TLC against the spec
        self.replays = 0         # spec behaviours replayed into the implementation
        self.steps = 0           # implementation steps compared / judged
        self.samples: List[Any] = []
        self.configs: List[dict] = []
        self.violations: List[Violation] = []
        self.drift: List[dict] = []
        self.observations: List[str] = []
        self.assumptions: List[str] = []
        self.extra: Dict[str, Any] = {}
        self.distinct_keys: set = set()
        self.exhaustive = False

    # -- recording ---------------------------------------------------------------------------------
    def add_tlc(self, name: str, res, constants: Any = None, note: str = ""):
        self.states += res.distinct
        self.transitions += res.generated
        self.configs.append({
            "config": name, "constants": constants, "states_distinct": res.distinct,
            "states_generated": res.generated, "depth": res.depth, "wall_s": round(res.wall_s, 2),
            "action_coverage": res.coverage, "note": note, "tlc": res.cmd,
        })

    def sample(self, s: Any, cap: int = 6):
        if len(self.samples) < cap:
            self.samples.append(s)

    def distinct(self, key: Any):
        self.distinct_keys.add(key if isinstance(key, (str, int, tuple)) else json.dumps(key, sort_keys=True, default=str))

    def violation(self, v: Violation):
        self.violations.append(v)

    # -- finishing ---------------------------------------------------------------------------------
    def finish(self) -> int:
        known = [k for k in load_known() if k.get("status") == "known" and k.get("property") == self.prop]
        unknown: List[Violation] = []
        matched: Dict[str, dict] = {}
        for v in self.violations:
            hit = None
            for k in known:
                m = k.get("match", {})
                if m.get("clause") == v.clause and m.get("discriminator") == v.discriminator:
                    hit = k
                    break
            if hit is not None:
                matched[hit["id"]] = hit
            else:
                unknown.append(v)
        for k in matched.values():
            print(f"KNOWN-FINDING: property={self.prop} {k['what']}")
        replay_paths = []
        seen = []
        for v in unknown:
            body = {"property": self.prop, "clause": v.clause, "leg": v.leg, "discriminator": v.discriminator,
                    "detail": v.detail, "script": v.script}
            blob = json.dumps(body, sort_keys=True, default=str)
            h = hashlib.sha1(blob.encode()).hexdigest()[:12]
            n_same = sum(1 for x in seen if x == (v.clause, v.discriminator))
            if n_same >= 2 or len(replay_paths) >= 8:
                continue
            seen.append((v.clause, v.discriminator))
            d = os.path.join(REPLAYS, self.prop)
            os.makedirs(d, exist_ok=True)
            path = os.path.join(d, h + ".json")
            with open(path, "w") as f:
                f.write(json.dumps(body, indent=1, default=str))
            replay_paths.append(path)
            print(f"VIOLATION property={self.prop} replay={path}")
            print(f"  clause={v.clause} leg={v.leg} discriminator={v.discriminator} detail={json.dumps(v.detail, default=str)[:600]}")
        for d in self.drift[:5]:
            print(f"DRIFT property={self.prop} {json.dumps(d, default=str)[:400]}")
        cov = {
            "states": max(self.states, 0),
            "transitions": max(self.transitions, 0),
            "traces_validated_against_impl": self.traces,
            "spec_behaviours_replayed_into_impl": self.replays,
            "impl_steps_judged": self.steps,
            "samples": self.samples or ["(no sample recorded)"],
            "evaluations": self.traces + self.replays,
            "distinct_nontrivial": len(self.distinct_keys),
            "rule": self.extra.pop("rule", "distinct = distinct (action, outcome-class) signatures of executed implementation traces"),
            "exhaustive": self.exhaustive,
            "configs": self.configs,
            "drift": len(self.drift),
            "known_findings_matched": sorted(matched),
            "observations": self.observations,
        }
        cov.update(self.extra)
        ev = {
            "property_id": self.prop, "tier": self.tier, "seed": self.seed, "level": self.level,
            "coverage": cov, "assumptions": self.assumptions, "wall_s": round(time.time() - self.t0, 2),
            "violations": len(unknown),
        }
        os.makedirs(EVIDENCE, exist_ok=True)
        tmp = os.path.join(EVIDENCE, f".{self.prop}.json.tmp")
        with open(tmp, "w") as f:
            json.dump(ev, f, indent=1, default=str)
        os.replace(tmp, os.path.join(EVIDENCE, f"{self.prop}.json"))
        status = "FAIL" if unknown else "ok"
        print(f"[{self.prop}] {status}: states={self.states} transitions={self.transitions} traces={self.traces} "
              f"replays={self.replays} steps={self.steps} drift={len(self.drift)} wall={ev['wall_s']}s")
        return 1 if unknown else 0
