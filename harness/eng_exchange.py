"""C01 C02 C04 C05 C06 C07 C08 C09 C10 C11 — the backtesting exchange.

Legs (DESIGN.md §2):
  MC     Exchange.tla model-checked on small configs (invariants + action properties of the property at hand)
  REPLAY behaviours of `tlc -simulate` on those configs become scripts executed against the real Exchange
  TRACE  scripts from an adaptive random driver (precisions, fees, share liquidity, margin loans, boundary-seeking
         requests) executed against the real Exchange
  every implementation trace (from REPLAY and TRACE) is judged step by step by TLC with ExchangeTrace.tla, which
  evaluates every property predicate on the implementation's own states.
"""
from __future__ import annotations

import json
import math
import multiprocessing as mp
import os
import random
from typing import Any, Dict, List, Optional

from . import tlc
from .common import Report, Violation

# ------------------------------------------------------------------ clause -> property ---------------------------
CLAUSES = {
    "Inv_C01_Conservation": "C01", "Obs_DecimalContextUntouched": "C01",
    "Inv_C02_NonNegative": "C02", "Inv_C02_BorrowedIsOpenPrincipal": "C02", "Obs_TotalIsAvailPlusHoldMinusBorrowed": "C02",
    "Obs_LoanListings": "C02",
    "Act_C04_FillOK": "C04", "Act_C04_OnlyBarsFill": "C04", "Act_C04_Complete": "C04", "Act_C04_CompleteDust": "C04",
    "Inv_C05_OrderShape": "C05", "Act_C05_Lifecycle": "C05", "Act_C05_FillOrKill": "C05", "Obs_Listings": "C05",
    "Obs_Remaining": "C05", "Step_OpenList": "C05", "Inv_C05_Events": "C05",
    "Inv_C06_HoldIsSumOfOpen": "C06", "Inv_C06_NoOpenNoHold": "C06", "Inv_C06_HoldLeBalance": "C06",
    "Step_Outcome_NoBorrow": "C06",
    "Act_C07_RejectedUnchanged": "C07",
    "Act_C08_LiquidityCap": "C08", "Obs_Grid": "C08", "Step_FillOrKill_ShouldFill": "C08",
    "Inv_C09_TotalFee": "C09", "Obs_FeesOnlyInQuote": "C09",
    "Act_C10_GrantedImpliesMargin": "C10", "Inv_C10_NoLendingNoLoans": "C10",
    "Act_C11_LoanClosure": "C11", "Step_OutInt": "C11", "Step_AutoRepay": "C11", "Inv_C11_OpenUnpaid": "C11",
}
# Clauses that only read what the implementation reported (balances, orders, loans, listings) plus data fixed by the script
# (request fields, bars, conditions in force): they are judged at EVERY step, because the validator re-synchronises with the
# implementation's observables after each step.  Clauses that read the spec's hidden bookkeeping (per-order reservations,
# the stop latch, auto-repay attribution) are only judged at the first step where implementation and spec part ways.
ROBUST = {"Obs_DecimalContextUntouched", "Act_C11_LoanClosure", "Inv_C11_OpenUnpaid", "Obs_LoanListings", "Inv_C01_Conservation", "Inv_C02_NonNegative", "Inv_C02_BorrowedIsOpenPrincipal", "Obs_TotalIsAvailPlusHoldMinusBorrowed",
          "Act_C04_OnlyBarsFill", "Inv_C05_OrderShape", "Act_C05_Lifecycle", "Act_C05_FillOrKill", "Obs_Listings", "Obs_Remaining",
          "Inv_C06_NoOpenNoHold", "Inv_C06_HoldLeBalance", "Act_C07_RejectedUnchanged", "Act_C08_LiquidityCap", "Obs_Grid",
          "Inv_C09_TotalFee", "Obs_FeesOnlyInQuote", "Act_C10_GrantedImpliesMargin", "Inv_C10_NoLendingNoLoans"}
DRIFT_CLAUSES = {"Step_BidAsk", "Step_Structure", "Step_Outcome", "Step_ErrClass", "Step_Balances", "Step_Holds", "Step_Orders",
                 "Step_Loans", "End_Complete", "End_EventsMatchSpec"}

# invariants / action properties of Exchange.tla per property (MC leg)
MC_PREDICATES = {
    "C01": (["C01_Conservation"], []),
    "C02": (["C02_NonNegative", "C02_BorrowedIsOpenPrincipal"], []),
    "C04": ([], ["PAct_C04", "PAct_C04_OnlyBarsFill", "PAct_C04_Complete"]),
    "C05": (["C05_OrderShape", "C05_OpenListing", "C05_Events"], ["PAct_C05", "PAct_C05_FillOrKill"]),
    "C06": (["C06_HoldIsSumOfOpen", "C06_NoOpenNoHold", "C06_HoldLeBalance"], []),
    "C07": ([], ["PAct_C07"]),
    "C08": ([], ["PAct_C08"]),
    "C09": (["C09_TotalFee"], []),
    "C10": (["C10_NoLendingNoLoans"], ["PAct_C10"]),
    "C11": (["C11_LoanShape"], ["PAct_C11"]),
}


# ------------------------------------------------------------------ configurations ------------------------------
def no_cond(isym="USD"):
    return {"has": False, "isym": isym, "pctN": 0, "pctD": 1, "period": 1, "minInt": 0, "reqN": 1}


def base_cfg(**over) -> dict:
    cfg = {"syms": ["BTC", "USD"], "scale": {"BTC": 1, "USD": 1}, "pairs": [{"b": "BTC", "q": "USD"}], "pm": 1,
           "init": {"BTC": 1, "USD": 4}, "feeMode": "none", "feeN": 0, "feeD": 1, "minFeeN": 0, "minFeeD": 1,
           "liqMode": "inf", "vlN": 1, "vlD": 4, "vs": 1, "impact": False, "lendMode": "none", "quoteSym": "USD",
           "reqD": 1, "cond": None, "reindexEvery": 50, "spreadN": 1, "spreadD": 2}
    cfg.update(over)
    if cfg["cond"] is None:
        cfg["cond"] = {s: no_cond() for s in cfg["syms"]}
    cfg.setdefault("condAlt", {s: dict(c) for s, c in cfg["cond"].items()})     # conditions set_conditions may switch to
    cfg.setdefault("istep", {s: 1 for s in cfg["syms"]})        # units per step of the SYMBOL's precision (pairs may be finer)
    return cfg


def tla(v: Any) -> str:
    if isinstance(v, bool):
        return "TRUE" if v else "FALSE"
    if isinstance(v, int):
        return str(v) if v >= 0 else f"(0 - {-v})"
    if isinstance(v, str):
        return json.dumps(v)
    if isinstance(v, (list, tuple)):
        return "<<" + ", ".join(tla(x) for x in v) + ">>"
    if isinstance(v, (set, frozenset)):
        return "{" + ", ".join(tla(x) for x in v) + "}"
    if isinstance(v, dict):
        return "[" + ", ".join(f"{k} |-> {tla(x)}" for k, x in v.items()) + "]"
    raise TypeError(v)


REQ_TMPL = ('{{[type |-> ty, op |-> op, pair |-> p, amount |-> a, limit |-> IF ty \\in {{"limit","stoplimit"}} THEN px ELSE 0, '
            'stop |-> IF ty \\in {{"stop","stoplimit"}} THEN sx ELSE 0, ab |-> ab, ar |-> ar, offgrid |-> FALSE] : '
            'ty \\in {types}, op \\in {{"buy","sell"}}, p \\in {pairs}, a \\in {amounts}, px \\in {limits}, sx \\in {stops}, '
            'ab \\in {abs_}, ar \\in {ars}}}')


def reqset(types, amounts, limits, stops, pairs=(1,), ab=(False,), ar=(False,)) -> str:
    return REQ_TMPL.format(types=tla(set(types)), pairs=tla(set(pairs)), amounts=tla(set(amounts)), limits=tla(set(limits)),
                           stops=tla(set(stops)), abs_=tla(set(ab)), ars=tla(set(ar)))


def barset(prices, volumes, pairs=(1,)) -> str:
    P = tla(set(prices))
    return (f"{{[p |-> p, o |-> o, h |-> h, l |-> l, c |-> c, v |-> v] : p \\in {tla(set(pairs))}, o \\in {P}, h \\in {P}, "
            f"l \\in {P}, c \\in {P}, v \\in {tla(set(volumes))}}}")


def margin_cond(isym, pctN=1, pctD=10, period=2, minInt=0, reqN=1):
    return {"has": True, "isym": isym, "pctN": pctN, "pctD": pctD, "period": period, "minInt": minInt, "reqN": reqN}


MC = {
    # all four order types, both sides, every weak ordering of o/h/l/c against limit=stop=2; no fees, no lending
    "orders": dict(
        cfg=base_cfg(reindexEvery=2),
        req=reqset(["market", "limit", "stop", "stoplimit"], [1, 2], [2], [2]), bars=barset([1, 2, 3], [4]),
        loans="{}", bounds=dict(MaxOrders=2, MaxLoans=0, MaxBars=3, MaxCalls=3), times=[1]),
    # stop-limit with limit # stop on a wider price grid
    "stoplimit": dict(
        cfg=base_cfg(init={"BTC": 2, "USD": 8}),
        req=reqset(["stoplimit", "stop"], [1], [2, 3], [2, 3]), bars=barset([1, 2, 3, 4], [4]),
        loans="{}", bounds=dict(MaxOrders=1, MaxLoans=0, MaxBars=3, MaxCalls=1), times=[1]),
    # percentage fee with a minimum, volume-share liquidity whose share is not a multiple of the base unit
    "fees": dict(
        cfg=base_cfg(init={"BTC": 3, "USD": 12}, feeMode="pct", feeN=1, feeD=10, minFeeN=1, minFeeD=2,
                     liqMode="share", vlN=1, vlD=2),
        req=reqset(["market", "limit", "stop"], [1, 3], [2, 3], [2]), bars=barset([2, 3], [0, 5, 6]),
        loans="{}", bounds=dict(MaxOrders=2, MaxLoans=0, MaxBars=3, MaxCalls=3), times=[1]),
    # a user-defined strategy charging 10 % of the traded base amount in the base symbol, competing orders under share liquidity
    "basefee": dict(
        cfg=base_cfg(scale={"BTC": 10, "USD": 1}, init={"BTC": 25, "USD": 12}, feeMode="base", feeN=1, feeD=10,
                     liqMode="share", vlN=1, vlD=2),
        req=reqset(["market", "limit"], [5, 15], [2], [2]), bars=barset([2], [0, 30, 50]),
        loans="{}", bounds=dict(MaxOrders=3, MaxLoans=0, MaxBars=3, MaxCalls=3), times=[1]),
    # base precision 1 (scale 10): rounding of quote amounts and fees
    "rounding": dict(
        cfg=base_cfg(scale={"BTC": 10, "USD": 1}, init={"BTC": 15, "USD": 9}, feeMode="pct", feeN=25, feeD=1000,
                     minFeeN=0, minFeeD=1, liqMode="share", vlN=1, vlD=4),
        req=reqset(["market", "limit"], [5, 15], [3], [3]), bars=barset([1, 3], [33, 70]),
        loans="{}", bounds=dict(MaxOrders=2, MaxLoans=0, MaxBars=3, MaxCalls=2), times=[1]),
    # margin lending: explicit loans, auto-borrow / auto-repay orders, interest with a minimum, zero-equity accounts
    "margin": dict(
        cfg=base_cfg(init={"BTC": 0, "USD": 4}, lendMode="margin", reqD=2,
                     cond={"BTC": margin_cond("USD", 1, 2, 2, 1, 1), "USD": margin_cond("USD", 1, 2, 2, 1, 1)}),
        req=reqset(["market", "limit"], [2], [2], [2], ab=[False, True], ar=[False, True]), bars=barset([1, 3], [4]),
        loans="{[sym |-> \"USD\", amount |-> 4], [sym |-> \"BTC\", amount |-> 2], [sym |-> \"USD\", amount |-> 40]}",
        bounds=dict(MaxOrders=2, MaxLoans=2, MaxBars=3, MaxCalls=3), times=[2]),
    "margin_zero": dict(
        cfg=base_cfg(init={"BTC": 0, "USD": 0}, lendMode="margin", reqD=2,
                     cond={"BTC": margin_cond("BTC", 1, 2, 1, 0, 1), "USD": margin_cond("USD", 1, 2, 1, 0, 2)}),
        req=reqset(["market"], [1], [2], [2], ab=[True], ar=[False, True]), bars=barset([1, 2], [4]),
        loans="{[sym |-> \"USD\", amount |-> 3], [sym |-> \"BTC\", amount |-> 1]}",
        bounds=dict(MaxOrders=2, MaxLoans=3, MaxBars=2, MaxCalls=4), times=[1]),
    # auto-borrow of BOTH symbols (a sell whose minimum fee exceeds its proceeds) where only the base symbol can be borrowed:
    # the second loan fails with a plain Error and the first one has to be rolled back
    "margin_fee": dict(
        cfg=base_cfg(init={"BTC": 0, "USD": 2}, lendMode="margin", reqD=2, feeMode="pct", feeN=1, feeD=10, minFeeN=5, minFeeD=1,
                     cond={"BTC": margin_cond("BTC", 0, 1, 1, 0, 1), "USD": no_cond()}),
        req=reqset(["limit", "market"], [1], [2], [2], ab=[True], ar=[False]), bars=barset([2], [4]),
        loans="{[sym |-> \"BTC\", amount |-> 1]}",
        bounds=dict(MaxOrders=2, MaxLoans=3, MaxBars=2, MaxCalls=3), times=[1]),
    # the conditions of BTC loans change while loans are open (MarginLoans.set_conditions): tighter requirement, other
    # interest terms for the loans granted from then on
    "margin_setcond": dict(
        cfg=base_cfg(init={"BTC": 0, "USD": 4}, lendMode="margin", reqD=2,
                     cond={"BTC": margin_cond("BTC", 1, 2, 1, 0, 1), "USD": margin_cond("USD", 1, 2, 1, 0, 2)},
                     condAlt={"BTC": margin_cond("BTC", 1, 1, 1, 1, 4), "USD": margin_cond("USD", 1, 2, 1, 0, 2)}),
        req=reqset(["market"], [1], [2], [2], ab=[True], ar=[True]), bars=barset([2, 4], [8]),
        loans="{[sym |-> \"BTC\", amount |-> 1], [sym |-> \"BTC\", amount |-> 2]}",
        bounds=dict(MaxOrders=1, MaxLoans=2, MaxBars=2, MaxCalls=4), times=[1]),
    # margin lending with finite liquidity: auto-repay orders that fill partially and get cancelled
    "margin_partial": dict(
        cfg=base_cfg(init={"BTC": 0, "USD": 8}, liqMode="share", vlN=1, vlD=2, lendMode="margin", reqD=2,
                     cond={"BTC": margin_cond("BTC", 0, 1, 1, 0, 1), "USD": margin_cond("USD", 0, 1, 1, 0, 1)}),
        req=reqset(["limit"], [3], [2], [2], ab=[False], ar=[True]), bars=barset([2], [2, 4]),
        loans="{[sym |-> \"BTC\", amount |-> 1], [sym |-> \"BTC\", amount |-> 2]}",
        bounds=dict(MaxOrders=1, MaxLoans=2, MaxBars=3, MaxCalls=4), times=[1]),
    # two pairs sharing the quote symbol: orders competing for the same funds inside one timestamp
    "twopairs": dict(
        cfg=base_cfg(syms=["BTC", "ETH", "USD"], scale={"BTC": 1, "ETH": 1, "USD": 1},
                     pairs=[{"b": "BTC", "q": "USD"}, {"b": "ETH", "q": "USD"}], init={"BTC": 0, "ETH": 1, "USD": 4},
                     cond={s: no_cond() for s in ["BTC", "ETH", "USD"]}, reindexEvery=2),
        req=reqset(["market", "limit"], [1, 2], [2], [2], pairs=[1, 2]), bars=barset([1, 3], [4], pairs=[1, 2]),
        loans="{}", bounds=dict(MaxOrders=2, MaxLoans=0, MaxBars=3, MaxCalls=2), times=[1]),
}
MC_FOR = {
    "C01": (["orders", "fees"], ["rounding", "margin", "twopairs", "basefee"]),
    "C02": (["margin", "twopairs"], ["orders", "fees", "margin_zero"]),
    "C04": (["orders", "stoplimit"], ["fees", "rounding"]),
    "C05": (["orders"], ["fees", "twopairs", "stoplimit"]),
    "C06": (["orders", "fees"], ["margin", "rounding", "twopairs"]),
    "C07": (["orders", "margin", "margin_fee"], ["fees", "margin_zero"]),
    "C08": (["fees", "basefee"], ["rounding", "orders"]),
    "C09": (["fees", "rounding"], ["orders", "basefee"]),
    "C10": (["margin", "margin_zero", "margin_setcond"], ["orders"]),
    "C11": (["margin", "margin_partial"], ["margin_zero", "margin_fee"]),
}
REACH_FOR = {
    "orders": ["Reach_Completed", "Reach_Rejected"],
    "fees": ["Reach_PartialFill", "Reach_FeeCharged", "Reach_FillOrKill"],
    "basefee": ["Reach_PartialFill", "Reach_BaseFeeCharged", "Reach_FillOrKill"],
    "margin": ["Reach_LoanRepaid", "Reach_AutoRepaid", "Reach_MarginRefused"],
    "margin_setcond": ["Reach_CondChanged", "Reach_MarginRefused"],
    "margin_fee": ["Reach_Rollback"],
    "stoplimit": ["Reach_StopHit"],
}


def mc_module(name: str, m: dict) -> str:
    return (f"---- MODULE Exchange_MC_{name} ----\nEXTENDS Exchange\nMC_C == {tla(m['cfg'])}\nMC_ReqSet == {m['req']}\n"
            f"MC_BarSet == {m['bars']}\nMC_LoanReqSet == {m['loans']}\nMC_TimeSteps == {tla(set(m['times']))}\n====\n")


def mc_cfg(m: dict, invariants, properties, emit=False, emit_at=0, bounds=None) -> str:
    b = dict(m["bounds"])
    if bounds:
        b.update(bounds)
    consts = {"C": tlc.Subst("MC_C"), "ReqSet": tlc.Subst("MC_ReqSet"), "BarSet": tlc.Subst("MC_BarSet"),
              "LoanReqSet": tlc.Subst("MC_LoanReqSet"), "TimeSteps": tlc.Subst("MC_TimeSteps"), "Emit": emit,
              "EmitAt": emit_at, **b}
    return tlc.cfg_text(consts, invariants=invariants, properties=properties, view=None if emit else "View")


def write_mc_modules(wd: str):
    specdir = os.path.join(wd, "specs")
    if not os.path.isdir(specdir):
        import shutil
        shutil.copytree(tlc.SPECS, specdir)
    for name, m in MC.items():
        with open(os.path.join(specdir, f"Exchange_MC_{name}.tla"), "w") as f:
            f.write(mc_module(name, m))


# ------------------------------------------------------------------ running the implementation ------------------
def _run_one(job):
    from . import exch_impl
    kind, payload = job
    try:
        if kind == "script":
            tr = exch_impl.run_script(payload)
        else:
            tr = run_random(payload)
        return tr
    except Exception as e:  # noqa: BLE001
        import traceback
        return {"harness_error": f"{type(e).__name__}: {e}\n{traceback.format_exc()[-1500:]}", "job": str(job)[:500]}


def run_jobs(jobs: List[tuple]) -> List[dict]:
    if not jobs:
        return []
    ctx = mp.get_context("fork")
    with ctx.Pool(min(tlc.NCPU, max(1, len(jobs) // 4 + 1))) as pool:
        out = pool.map(_run_one, jobs, chunksize=max(1, len(jobs) // (tlc.NCPU * 4)))
    for o in out:
        if "harness_error" in o:
            raise tlc.MachineryError("implementation runner failed: " + o["harness_error"])
    return out


def magnitude_limit(cfg: dict, steps) -> int:
    """Largest unit count for which every product the spec computes stays inside TLC's 32-bit integers."""
    smax = max(cfg["scale"].values())
    pmax = max([1] + [max(s["arg"]["h"], s["arg"]["o"]) for s in steps if s["kind"] == "bar"])
    req = max([1] + [c["reqN"] for c in list(cfg["cond"].values()) + list(cfg.get("condAlt", {}).values())]) * max(1, cfg["reqD"])
    ld = max(1, cfg["vlD"] * cfg["vs"])
    # values through an inverse pair are carried multiplied by the inverse prices (KAll in ExchangeCore.tla) and by pm^2 * scale[Q]
    kall = 1
    if cfg.get("inverse") and cfg["lendMode"] == "margin":
        q = cfg["quoteSym"]
        for k, p in enumerate(cfg["pairs"], start=1):
            if p["b"] == q:         # Q/x: x is valued through 1 / price
                kall *= max([1] + [max(s["arg"]["h"], s["arg"]["o"]) for s in steps if s["kind"] == "bar" and s["arg"]["p"] == k])
        kall *= cfg["pm"] * cfg["scale"][q]
    return max(1000, (2**31 - 1) // (pmax * smax * cfg["pm"] * req * len(cfg["syms"]) * 2 * ld * kall))


def slim(tr: dict, tid: int) -> dict:
    """What ExchangeTrace.tla reads (no nulls, no floats).  A trace is cut before the first step whose amounts would overflow
    TLC's integers (counted in the evidence as truncated)."""
    steps = []
    tr["cfg"].setdefault("condAlt", tr["cfg"]["cond"])
    tr["cfg"].setdefault("istep", {s: 1 for s in tr["cfg"]["syms"]})
    limit = magnitude_limit(tr["cfg"], tr["steps"])
    for s in tr["steps"]:
        o = s["obs"]
        big = max([0] + [abs(v) for m in (o["bal"], o["hold"], o["bor"]) for v in m.values()]
                  + [x["amount"] for x in o["loans"]]
                  + ([s["arg"].get("amount", 0)] if isinstance(s["arg"], dict) else []))
        if big > limit:
            tr["truncated_at"] = len(steps)
            break
        steps.append({"kind": s["kind"], "arg": s["arg"], "ok": s["ok"], "err": s["err"],
                      "openList": s.get("openList", []), "perPairOk": s.get("perPairOk", True), "obsBroken": bool(s.get("obsBroken")),
                      "obs": {"clock": o["clock"], "bal": o["bal"], "hold": o["hold"], "bor": o["bor"], "bidask": o["bidask"],
                              "orders": o["orders"], "loans": o["loans"], "totalOk": o["totalOk"],
                              "listingOk": o["listingOk"], "loanListingOk": o.get("loanListingOk", True), "offgrid": o["offgrid"][:3],
                              "ctxOk": o.get("ctxOk", True)}})
    if "truncated_at" in tr:
        return {"id": tid, "cfg": tr["cfg"], "steps": steps, "events": [], "complete": False, "truncated": True}
    return {"id": tid, "cfg": tr["cfg"], "steps": steps, "events": [e for e in tr["events"] if "info" in e],
            "complete": bool(tr["complete"]) and all("info" in e for e in tr["events"]), "truncated": False}


def validate(traces: List[dict], wd: str, rep: Optional[Report], shards: int = None) -> Dict[int, dict]:
    """Judge traces with TLC (ExchangeTrace.tla); one JVM per shard, in parallel."""
    if not traces:
        return {}
    shards = shards or min(tlc.NCPU, max(1, len(traces) // 20))
    parts = [traces[k::shards] for k in range(shards) if traces[k::shards]]
    from concurrent.futures import ThreadPoolExecutor
    skipped: List[int] = []

    def one(part):
        """One JVM per batch.  TLC's integers are 32 bit: a trace whose amounts overflow an intermediate product in spite of
        the magnitude guard aborts the JVM; it is then set aside (counted as unjudged) and the rest of the batch is re-run."""
        out, todo, last = [], list(part), None
        while todo:
            path = os.path.join(wd, f"ex-{os.getpid()}-{random.getrandbits(40):x}.ndjson")
            with open(path, "w") as f:
                for tr in todo:
                    f.write(json.dumps(tr) + "\n")
            res = tlc.run("ExchangeTrace", tlc.cfg_text(postcondition="AllConsumed"), workdir=wd, mode="trace",
                          env={"TRACE_FILE": path}, timeout=3600, dump_trace=False, java_heap="2g",
                          tolerate="Overflow when computing")
            os.unlink(path)
            out += res.emitted
            last = res
            if res.ok:
                break
            if "Overflow when computing" not in res.tail:
                raise tlc.MachineryError("trace validation failed: " + res.tail[-2000:])
            done = {v["id"] for v in res.emitted}
            k = next(i for i, tr in enumerate(todo) if tr["id"] not in done)
            skipped.append(todo[k]["id"])
            out.append({"id": todo[k]["id"], "steps": len(todo[k]["steps"]), "judged": 0, "dead": False, "viol": [], "overflow": True})
            todo = todo[k + 1:]
        return last, out
    with ThreadPoolExecutor(len(parts)) as ex:
        pairs = list(ex.map(one, parts))
    results = [r for r, _ in pairs if r is not None]
    verdicts = {}
    for _, out in pairs:
        for v in out:
            verdicts[v["id"]] = v
    if rep is not None and skipped:
        rep.extra["traces_unjudged_integer_overflow"] = rep.extra.get("traces_unjudged_integer_overflow", 0) + len(skipped)
    if rep is not None:
        agg = results[0]
        agg.distinct = sum(r.distinct for r in results)
        agg.generated = sum(r.generated for r in results)
        agg.wall_s = max(r.wall_s for r in results)
        rep.add_tlc("ExchangeTrace/TRACE", agg, None, f"{len(traces)} implementation traces in {len(parts)} TLC batches")
    missing = [t["id"] for t in traces if t["id"] not in verdicts]
    if missing:
        raise tlc.MachineryError(f"no verdict for traces {missing[:5]}")
    return verdicts


# ------------------------------------------------------------------ adaptive random driver ----------------------
def rhe(n: int, d: int) -> int:
    q, r = divmod(n, d)
    if 2 * r < d:
        return q
    if 2 * r > d:
        return q + 1
    return q if q % 2 == 0 else q + 1


def random_cfg(rng: random.Random, profile: str) -> dict:
    three = rng.random() < 0.35
    syms = ["BTC", "ETH", "USD"] if three else ["BTC", "USD"]
    pairs = [{"b": "BTC", "q": "USD"}] + ([{"b": "ETH", "q": "USD"}] if three else [])
    scale = {s: rng.choice([1, 1, 10, 100]) for s in syms}
    scale["USD"] = rng.choice([1, 100, 100])
    pm = rng.choice([1, 1, 1, 10])
    lend = "margin" if profile in ("margin",) or (profile == "mixed" and rng.random() < 0.4) else "none"
    fee = "pct" if profile == "fees" or rng.random() < 0.5 else "none"
    liq = "share" if profile == "liquidity" or rng.random() < 0.5 else "inf"
    cfg = base_cfg(syms=syms, scale=scale, pairs=pairs, pm=pm,
                   init={s: rng.choice([0, 0, rng.randint(1, 50), rng.randint(50, 900)]) for s in syms},
                   feeMode=fee, liqMode=liq, lendMode=lend, cond={s: no_cond() for s in syms},
                   reindexEvery=rng.choice([50, 50, 2, 3, 7]))
    if profile == "slip":
        # slippage stress: share liquidity with a large price impact, orders comparable to the bar's liquidity, ample funds
        cfg["liqMode"], cfg["lendMode"] = "share", "none"
        cfg["init"] = {s: rng.randint(5000, 9000) * cfg["scale"][s] // max(1, cfg["scale"][s] // 10) for s in syms}
        cfg["slip"] = True
        liq, lend = "share", "none"
    if fee == "pct" and rng.random() < 0.15:
        cfg["bigMinFee"] = True
    elif fee == "pct" and rng.random() < 0.18:
        # a user-defined fee strategy charging a share of the traded base amount in the BASE symbol
        fee = cfg["feeMode"] = "base"
        cfg["feeN"], cfg["feeD"] = rng.choice([(1, 1000), (25, 10000), (1, 100), (1, 10), (1, 3)])
    if fee == "pct":
        cfg["feeN"], cfg["feeD"] = rng.choice([(0, 1), (1, 1000), (25, 10000), (1, 100), (1, 10), (999, 1000)])
        cfg["minFeeN"], cfg["minFeeD"] = rng.choice([(0, 1), (0, 1), (1, 200), (1, 2), (3, 1)])
        if cfg.get("bigMinFee"):
            cfg["minFeeN"], cfg["minFeeD"] = rng.choice([300, 2000]), 1      # a minimum fee that small sells do not cover
    if liq == "share":
        cfg["vlN"], cfg["vlD"] = rng.choice([(1, 4), (1, 10), (1, 2), (3, 20), (1, 1), (0, 1)])  # terminating decimals only: the code works in Decimal
        cfg["vs"] = rng.choice([1, 1, 10])
        cfg["impactPct"] = rng.choice([0, 0, 10, 25, 100])          # price impact constant (percent); 10 is the library default
        if cfg.get("slip"):
            cfg["impactPct"] = rng.choice([10, 50, 100])
            cfg["vlN"], cfg["vlD"], cfg["vs"] = rng.choice([(1, 2), (1, 1), (1, 4)]) + (1,)
        cfg["impact"] = cfg["impactPct"] > 0
    if lend == "margin" and rng.random() < 0.12:
        # a symbol that is only priced through an inverse pair (USD/ARS): margin values go through 1 / price
        syms.append("ARS")
        cfg["scale"]["ARS"] = 1
        cfg["init"]["ARS"] = rng.choice([0, 0, 500])
        cfg["pairs"].append({"b": "USD", "q": "ARS"})
        cfg["cond"]["ARS"] = no_cond()
        cfg["borrowOnly"] = len(cfg["pairs"])
        cfg["inverse"] = True
    elif lend == "margin" and rng.random() < 0.2 and "EUR" not in syms:
        # a symbol that is only borrowed, with loan amounts finer than its configured precision (1 decimal, units of 0.001)
        syms.append("EUR")
        cfg["scale"]["EUR"] = 1000
        cfg["init"]["EUR"] = rng.choice([0, 2000, 37500])
        cfg["pairs"].append({"b": "EUR", "q": "USD"})
        cfg["cond"]["EUR"] = no_cond()
        cfg["precOverride"] = {"EUR": 1}
        cfg["borrowOnly"] = len(cfg["pairs"])
    elif lend == "margin" and rng.random() < 0.2:
        # dust equity against huge loans: the margin level is a tiny positive number (0.00..% once rounded)
        cfg["scale"] = {s: 1 for s in syms}
        cfg["pm"] = 1
        cfg["init"] = {s: 0 for s in syms}
        cfg["init"]["USD"] = rng.choice([1, 1, 2, 3])
        cfg["dust"] = True
    if lend == "margin" and rng.random() < 0.15:
        # a minimum fee larger than small proceeds: a sell may have to borrow both symbols
        cfg["feeMode"], cfg["feeN"], cfg["feeD"], cfg["minFeeN"], cfg["minFeeD"] = "pct", 1, 100, rng.choice([3, 50]), 1
    if lend == "margin" and cfg.get("borrowOnly"):
        cfg["scale"] = {s: (v if s == "EUR" else min(v, 10)) for s, v in cfg["scale"].items()}
    if lend == "margin":
        # keep value computations (units * price * scale ratio * requirement) inside TLC's 32-bit integers
        cfg["pm"] = 1
        cfg["scale"] = {s: (v if s == "EUR" and cfg.get("borrowOnly") else min(v, 10)) for s, v in cfg["scale"].items()}
        cfg["reqD"] = 4
        for s in syms:
            if s == "EUR" and cfg.get("borrowOnly"):
                cfg["cond"][s] = margin_cond("EUR", 0, 1, 1, 0, rng.choice([1, 2, 4]))      # no interest: nothing is truncated
                continue
            if s == "ARS" and cfg.get("inverse"):
                cfg["cond"][s] = margin_cond("ARS", *rng.choice([(0, 1), (1, 10)]), period=rng.choice([1, 2]), minInt=rng.choice([0, 3]),
                                             reqN=rng.choice([1, 2, 4]))
                continue
            if rng.random() < 0.85:
                req = rng.choice([1, 2, 4, 8, 0])
                # a symbol without requirement can be borrowed before it has a price: its interest stays in its own symbol
                # (get_loans() raises NoPrice for a loan whose outstanding interest cannot be converted, observation O8)
                flat_foreign = req == 0 and s != "USD" and rng.random() < 0.5
                cfg["cond"][s] = margin_cond("USD" if flat_foreign else s if req == 0 else rng.choice([s, "USD"]),
                                             *rng.choice([(1, 100), (1, 10)] if flat_foreign else [(0, 1), (1, 100), (1, 10), (7, 100)]),
                                             # period 0 = flat interest (not proportional to time)
                                             period=0 if flat_foreign else rng.choice([1, 2, 4, 8, 0]),
                                             minInt=rng.choice([0, 0, 1, 5]), reqN=req)
    cfg["condAlt"] = {s: dict(c) for s, c in cfg["cond"].items()}
    if lend == "margin":
        cfg["defaultCond"] = rng.choice(syms) if rng.random() < 0.4 else ""
        cfg["reuseLend"] = rng.random() < 0.3
    cfg["keepDefaultPairInfo"] = rng.random() < 0.7
    cfg["istep"] = {s: 1 for s in syms}
    if not cfg.get("borrowOnly") and not cfg.get("inverse") and rng.random() < 0.3:
        # the precision configured for a symbol is coarser than the precision of the pairs it trades in (set_pair_info):
        # interest is truncated to the symbol's precision, amounts, fills and loans are not
        for s in syms:
            if cfg["scale"][s] >= 10 and rng.random() < 0.7:
                cfg["istep"][s] = 10
    if lend == "margin" and rng.random() < 0.35:
        # the strategy changes the lending conditions of some symbols while the backtest runs (tighter or looser
        # requirement, other interest rate / minimum); the interest symbol and period stay
        for s in syms:
            c = cfg["cond"][s]
            if c["has"] and rng.random() < 0.7 and not (s == "EUR" and cfg.get("borrowOnly")):
                alt = dict(c, reqN=rng.choice([x for x in (1, 2, 4, 8) if x != c["reqN"]]))
                if rng.random() < 0.5 and not (s == "ARS" and cfg.get("inverse")):
                    alt["pctN"], alt["pctD"] = rng.choice([(0, 1), (1, 100), (1, 10), (7, 100)])
                    alt["minInt"] = rng.choice([0, 1, 5])
                cfg["condAlt"][s] = alt
    return cfg


class Driver:
    """Generates bars up front and requests adaptively (it looks at the last observation to aim at boundaries)."""

    def __init__(self, seed: int, profile: str, nbars: int):
        self.rng = rng = random.Random(seed)
        self.profile = profile
        self.cfg = cfg = random_cfg(rng, profile)
        self.last = {}
        self.calls_left = {}
        self.bars = []
        t = 0
        px = {i + 1: (rng.randint(2, 20) if (cfg.get("dust") or cfg.get("borrowOnly") == i + 1) else rng.randint(20, 200)) * cfg["pm"]
              for i in range(len(cfg["pairs"]))}
        for _ in range(nbars):
            t += rng.choice([1, 1, 1, 2, 4])
            some = False
            for p in range(1, len(cfg["pairs"]) + 1):
                if rng.random() < 0.8 or (p == len(cfg["pairs"]) and not some):
                    some = True
                    o = max(1, px[p] + rng.randint(-15, 15) * rng.choice([0, 1, 1, 3]))
                    c = max(1, o + rng.randint(-12, 12))
                    h = max(o, c) + rng.choice([0, 0, rng.randint(0, 10)])
                    l = max(1, min(o, c) - rng.choice([0, 0, rng.randint(0, 10)]))
                    px[p] = c
                    bs = cfg["scale"][cfg["pairs"][p - 1]["b"]]
                    v = rng.choice([0, rng.randint(1, 40), rng.randint(1, 400), rng.randint(100, 4000)]) * rng.choice([1, bs])
                    if cfg.get("slip"):
                        v = rng.randint(20, 120)
                    self.bars.append({"kind": "bar", "arg": {"p": p, "t": t, "o": o, "h": h, "l": l, "c": c, "v": v}})
            if rng.random() < 0.12 and some:
                # a second feed delivers another bar of one of the pairs with the same timestamp
                last = self.bars[-1]["arg"]
                span = rng.choice([1, 1, 4, 24])
                wide = dict(last, dup=True, v=max(1, last["v"] // 2), span=span)
                if span > 1:
                    # a bar of a longer period ending at the same time: it begins earlier and its range is wider
                    wide["h"] = last["h"] + rng.choice([0, rng.randint(1, 12)])
                    wide["l"] = max(1, last["l"] - rng.choice([0, rng.randint(1, 12)]))
                    wide["o"] = rng.randint(wide["l"], wide["h"])
                self.bars.append({"kind": "bar", "arg": wide})
        self.ncalls = {}

    def policy(self, t, obs, out_steps):
        rng, cfg = self.rng, self.cfg
        if t not in self.ncalls:
            self.ncalls[t] = rng.choice([0, 1, 1, 2, 3, 5])
        if self.ncalls[t] <= 0 or obs is None:
            return None
        self.ncalls[t] -= 1
        last = {}
        for s in out_steps:
            if s["kind"] == "bar":
                last[s["arg"]["p"]] = s["arg"]["c"]
        weights = {"create_order": 6, "cancel_order": 2, "get_open_orders": 1}
        if cfg["lendMode"] == "margin" or rng.random() < 0.1:
            weights.update({"create_loan": 3, "repay_loan": 2})
        switchable = [s for s in cfg["syms"] if cfg.get("condAlt", cfg["cond"])[s] != cfg["cond"][s]]
        if switchable and cfg["lendMode"] == "margin":
            weights["set_cond"] = 1
        kind = rng.choices(list(weights), list(weights.values()))[0]
        if kind == "get_open_orders":
            return [{"kind": kind, "arg": 1 + len(cfg["pairs"])}]
        if kind == "set_cond":
            return [{"kind": kind, "arg": {"sym": rng.choice(switchable), "which": rng.choice(["alt", "alt", "base"])}}]
        if kind == "cancel_order":
            n = len(obs["orders"])
            open_idx = [i + 1 for i, o in enumerate(obs["orders"]) if o["state"] == "open"]
            if open_idx and rng.random() < 0.7:
                return [{"kind": kind, "arg": rng.choice(open_idx)}]
            return [{"kind": kind, "arg": rng.randint(1, n + 1)}]
        if kind == "repay_loan":
            n = len(obs["loans"])
            open_idx = [j + 1 for j, l in enumerate(obs["loans"]) if l["open"]]
            if open_idx and rng.random() < 0.8:
                return [{"kind": kind, "arg": rng.choice(open_idx)}]
            return [{"kind": kind, "arg": rng.randint(1, n + 1)}]
        if kind == "create_loan":
            s = rng.choice(cfg["syms"])
            if cfg.get("borrowOnly") and rng.random() < 0.6:
                if cfg.get("inverse"):
                    return [{"kind": kind, "arg": {"sym": "ARS", "amount": rng.choice([rng.randint(1, 99), rng.randint(100, 5000)])}}]
                return [{"kind": kind, "arg": {"sym": "EUR", "amount": rng.choice([rng.randint(1, 999), rng.randint(1000, 50000)])}}]
            if cfg.get("dust"):
                return [{"kind": kind, "arg": {"sym": s, "amount": rng.choice([1, rng.randint(2, 9), rng.randint(10**3, 10**4), rng.randint(10**4, 2 * 10**4)])}}]
            return [{"kind": kind, "arg": {"sym": s, "amount": rng.choice([0, 1, rng.randint(1, 60), rng.randint(50, 600)])}}]
        # create_order, aiming at the reservation boundary
        p = rng.randint(1, len(cfg["pairs"]) - (1 if cfg.get("borrowOnly") else 0))
        pr = cfg["pairs"][p - 1]
        pd = cfg["scale"][pr["b"]] * cfg["pm"]
        ty = rng.choice(["market", "limit", "limit", "stop", "stoplimit"] + (["stoplimit", "stoplimit"] if cfg.get("slip") else []))
        op = rng.choice(["buy", "sell"])
        ref = last.get(p, 0)
        pm = cfg["pm"]

        def near(x):
            return max(pm, (x + rng.randint(-12, 12) * pm) // pm * pm)
        limit = near(ref) if ty in ("limit", "stoplimit") and ref else (rng.randint(1, 100) * pm if ty in ("limit", "stoplimit") else 0)
        stop = near(ref) if ty in ("stop", "stoplimit") and ref else (rng.randint(1, 100) * pm if ty in ("stop", "stoplimit") else 0)
        est = limit if ty in ("limit", "stoplimit") else stop if ty == "stop" else ref
        avail_b = obs["bal"][pr["b"]] - obs["hold"][pr["b"]]
        avail_q = obs["bal"][pr["q"]] - obs["hold"][pr["q"]]
        if op == "sell":
            a = rng.choice([avail_b, avail_b + 1, max(1, avail_b // 2), rng.randint(1, 30)])
        elif est:
            a0 = avail_q * pd // est
            a = rng.choice([a0, a0 + 1, max(1, a0 - 1), max(1, a0 // 2), rng.randint(1, 30)])
        else:
            a = rng.randint(1, 30)
        if cfg.get("slip"):
            # a good part of the bar's liquidity, prices within a few ticks of the last close
            a = rng.randint(5, 60)
            if ty in ("limit", "stoplimit"):
                limit = max(pm, (ref + rng.randint(-6, 6) * pm) // pm * pm) if ref else limit
            if ty in ("stop", "stoplimit"):
                stop = max(pm, (ref + rng.randint(-6, 6) * pm) // pm * pm) if ref else stop
            if ty == "stoplimit" and ref and rng.random() < 0.6:
                # the stop is reached first while the limit is still out of the bar's range (the latch), fills come later
                sgn = 1 if op == "buy" else -1
                stop = max(pm, (ref + sgn * rng.randint(0, 3) * pm) // pm * pm)
                limit = max(pm, (ref + sgn * rng.randint(2, 9) * pm) // pm * pm)
        a = min(max(a, 0 if rng.random() < 0.03 else 1), 900)
        r = {"type": ty, "op": op, "pair": p, "amount": a, "limit": limit, "stop": stop,
             "ab": cfg["lendMode"] == "margin" and rng.random() < 0.5, "ar": rng.random() < 0.3,
             "offgrid": rng.random() < 0.03}
        if rng.random() < 0.02 and ty in ("limit", "stoplimit"):
            r["limit"] = 0
        return [{"kind": "create_order", "arg": r}]


def _req(**k):
    return dict(dict(type="market", op="buy", pair=1, amount=1, limit=0, stop=0, ab=False, ar=False, offgrid=False), **k)


def corpus() -> List[dict]:
    """Directed scripts for histories that random generation reaches rarely."""
    out = []
    # a stop-limit order whose stop is reached in a bar that does not reach its limit, filled later with maximum slippage
    for op, stop, limit, b2, b3 in (("buy", 100, 101, (99, 100, 98, 100), (100, 110, 100, 105)),
                                    ("sell", 100, 99, (101, 102, 100, 100), (100, 100, 90, 95))):
        cfg = base_cfg(init={"BTC": 1000, "USD": 100000}, liqMode="share", vlN=1, vlD=4, vs=1, impactPct=10, impact=True)
        first = (99, 99, 98, 99) if op == "buy" else (101, 102, 101, 101)
        out.append({"cfg": cfg, "steps": [
            {"kind": "bar", "arg": dict(zip("ohlc", first), p=1, t=1, v=100000)},
            {"kind": "create_order", "arg": _req(type="stoplimit", op=op, amount=100, stop=stop, limit=limit)},
            {"kind": "bar", "arg": dict(zip("ohlc", b2), p=1, t=2, v=100000)},
            {"kind": "bar", "arg": dict(zip("ohlc", b3), p=1, t=3, v=400)}]})
    # an order that fits the bar's liquidity but cannot be paid for must not consume liquidity: the next one still fits
    cfg = base_cfg(init={"BTC": 0, "USD": 320}, liqMode="share", vlN=1, vlD=4, vs=1)
    out.append({"cfg": cfg, "steps": [
        {"kind": "bar", "arg": dict(p=1, t=1, o=10, h=10, l=10, c=10, v=100)},
        {"kind": "create_order", "arg": _req(amount=20)}, {"kind": "create_order", "arg": _req(amount=10)},
        {"kind": "bar", "arg": dict(p=1, t=2, o=13, h=13, l=13, c=13, v=100)}]})
    # fill-or-kill orders whose amount is exactly the liquidity that is left
    for ty in ("stop", "market"):
        cfg = base_cfg(init={"BTC": 50, "USD": 1000}, liqMode="share", vlN=1, vlD=4, vs=1)
        out.append({"cfg": cfg, "steps": [
            {"kind": "bar", "arg": dict(p=1, t=1, o=10, h=10, l=10, c=10, v=100)},
            {"kind": "create_order", "arg": _req(type=ty, amount=10, stop=10 if ty == "stop" else 0)},
            {"kind": "create_order", "arg": _req(type="market", op="sell", amount=15)},
            {"kind": "bar", "arg": dict(p=1, t=2, o=10, h=11, l=9, c=10, v=40)},
            {"kind": "create_order", "arg": _req(type=ty, op="sell", amount=10, stop=10 if ty == "stop" else 0)},
            {"kind": "bar", "arg": dict(p=1, t=3, o=10, h=11, l=9, c=10, v=100)}]})
    # an auto-repay order that traded partially and is then cancelled still repays the loans it can afford
    cfg = base_cfg(init={"BTC": 0, "USD": 100}, liqMode="share", vlN=1, vlD=2, vs=1, lendMode="margin", reqD=2,
                   cond={"BTC": margin_cond("BTC", 0, 1, 1, 0, 1), "USD": margin_cond("USD", 0, 1, 1, 0, 1)})
    out.append({"cfg": cfg, "steps": [
        {"kind": "bar", "arg": dict(p=1, t=1, o=10, h=10, l=10, c=10, v=100)},
        {"kind": "create_loan", "arg": {"sym": "BTC", "amount": 4}},
        {"kind": "create_order", "arg": _req(type="limit", amount=6, limit=10, ar=True)},
        {"kind": "bar", "arg": dict(p=1, t=2, o=10, h=10, l=10, c=10, v=4)},
        {"kind": "cancel_order", "arg": 1},
        {"kind": "bar", "arg": dict(p=1, t=3, o=10, h=10, l=10, c=10, v=4)}]})
    # ... and when the proceeds cover a loan's principal but not principal + (minimum) interest, the cancellation succeeds
    # and the loan simply stays open (the failed repayment is not the caller's error)
    for min_int, vol in ((5, 41), (1, 40), (30, 43)):
        cfg = base_cfg(init={"BTC": 12, "USD": 0}, liqMode="share", vlN=1, vlD=4, vs=1, lendMode="margin", reqD=4,
                       cond={"BTC": no_cond(), "USD": margin_cond("USD", 0, 1, 1, min_int, 1)})
        out.append({"cfg": cfg, "steps": [
            {"kind": "bar", "arg": dict(p=1, t=1, o=10, h=10, l=10, c=10, v=1000)},
            {"kind": "create_loan", "arg": {"sym": "USD", "amount": 100}},
            {"kind": "create_order", "arg": _req(type="market", op="buy", amount=10)},
            {"kind": "bar", "arg": dict(p=1, t=2, o=10, h=10, l=10, c=10, v=1000)},
            {"kind": "create_order", "arg": _req(type="limit", op="sell", amount=20, limit=10, ar=True)},
            {"kind": "bar", "arg": dict(p=1, t=3, o=10, h=10, l=10, c=10, v=vol)},
            {"kind": "cancel_order", "arg": 2},
            {"kind": "get_open_orders", "arg": 2},
            {"kind": "bar", "arg": dict(p=1, t=4, o=10, h=10, l=10, c=10, v=vol)}]})
    # two pairs and an open-list re-indexing on every 2nd traversal: an order of one pair stays in the books (and is
    # completely filled by its pair's next bar) however many bars of the other pair are processed in between
    for ty, nb in (("limit", 2), ("market", 3), ("limit", 5)):
        cfg = base_cfg(syms=["BTC", "ETH", "USD"], scale={"BTC": 1, "ETH": 1, "USD": 1},
                       pairs=[{"b": "BTC", "q": "USD"}, {"b": "ETH", "q": "USD"}], init={"BTC": 5, "ETH": 5, "USD": 1000},
                       cond={s: no_cond() for s in ["BTC", "ETH", "USD"]}, reindexEvery=2)
        steps = [{"kind": "bar", "arg": dict(p=1, t=1, o=10, h=10, l=10, c=10, v=1000)},
                 {"kind": "bar", "arg": dict(p=2, t=1, o=20, h=20, l=20, c=20, v=1000)},
                 {"kind": "create_order", "arg": _req(type=ty, op="buy", pair=2, amount=3, limit=25 if ty == "limit" else 0)},
                 {"kind": "create_order", "arg": _req(type="limit", op="sell", pair=1, amount=2, limit=500)}]
        steps += [{"kind": "bar", "arg": dict(p=1, t=2 + i, o=10, h=11, l=9, c=10, v=1000)} for i in range(nb)]
        steps += [{"kind": "bar", "arg": dict(p=2, t=2 + nb, o=20, h=21, l=19, c=20, v=1000)},
                  {"kind": "get_open_orders", "arg": 3}]
        out.append({"cfg": cfg, "steps": steps})
    # two bar periods for one pair (e.g. 1 h and 4 h bars from two feeds): the longer bar ends with the short one, begins
    # before bars already seen and has the wider range -- orders are matched against it like against any other bar
    for ty, lim, op in (("limit", 8, "buy"), ("limit", 13, "sell"), ("stop", 13, "buy")):
        cfg = base_cfg(init={"BTC": 5, "USD": 1000})
        out.append({"cfg": cfg, "steps": [
            {"kind": "bar", "arg": dict(p=1, t=1, o=10, h=10, l=10, c=10, v=1000)},
            {"kind": "bar", "arg": dict(p=1, t=2, o=10, h=11, l=9, c=10, v=1000)},
            {"kind": "create_order", "arg": _req(type=ty, op=op, amount=2, limit=lim if ty == "limit" else 0, stop=lim if ty == "stop" else 0)},
            {"kind": "bar", "arg": dict(p=1, t=3, o=10, h=11, l=9, c=10, v=1000)},
            {"kind": "bar", "arg": dict(p=1, t=3, o=10, h=14, l=7, c=10, v=1000, dup=True, span=4)},
            {"kind": "get_open_orders", "arg": 2}]})
    # a sell whose proceeds do not cover the minimum fee reserves base AND quote; when it fills partially (share liquidity)
    # what the fill debits is released from the reservation of every symbol it debits, the rest stays reserved
    for amount, vol in ((4, 8), (6, 8), (3, 4)):
        cfg = base_cfg(init={"BTC": 10, "USD": 10}, feeMode="pct", feeN=1, feeD=100, minFeeN=5, minFeeD=1,
                       liqMode="share", vlN=1, vlD=4, vs=1)
        out.append({"cfg": cfg, "steps": [
            {"kind": "bar", "arg": dict(p=1, t=1, o=1, h=1, l=1, c=1, v=1000)},
            {"kind": "create_order", "arg": _req(type="limit", op="sell", amount=amount, limit=1)},
            {"kind": "bar", "arg": dict(p=1, t=2, o=1, h=1, l=1, c=1, v=vol)},
            {"kind": "get_open_orders", "arg": 2},
            {"kind": "create_order", "arg": _req(type="limit", op="buy", amount=1, limit=1)},
            {"kind": "bar", "arg": dict(p=1, t=3, o=1, h=1, l=1, c=1, v=vol)},
            {"kind": "bar", "arg": dict(p=1, t=4, o=1, h=1, l=1, c=1, v=1000)}]})
    # fees at very fine quote precisions (20 and 24 decimals): rounded up to THAT precision, over one and several fills
    for lift_q, vol in ((18, 1000), (22, 1000), (22, 6)):
        cfg = base_cfg(scale={"BTC": 1, "USD": 100}, init={"BTC": 50, "USD": 2000}, feeMode="pct", feeN=125, feeD=100000,
                       liqMode="share", vlN=1, vlD=2, vs=1)
        out.append({"cfg": cfg, "lift": {"BTC": lift_q - 2, "USD": lift_q}, "steps": [
            {"kind": "bar", "arg": dict(p=1, t=1, o=103, h=103, l=103, c=103, v=1000)},
            {"kind": "create_order", "arg": _req(type="limit", op="buy", amount=7, limit=103)},
            {"kind": "create_order", "arg": _req(type="market", op="sell", amount=3)},
            {"kind": "bar", "arg": dict(p=1, t=2, o=103, h=103, l=103, c=103, v=vol)},
            {"kind": "bar", "arg": dict(p=1, t=3, o=103, h=103, l=103, c=103, v=vol)},
            {"kind": "bar", "arg": dict(p=1, t=4, o=103, h=103, l=103, c=103, v=1000)}]})
    # an account without equity that owes a symbol with a margin requirement (tightened after the loan was granted) cannot
    # borrow anything more, not even a symbol that needs no margin itself
    cfg = base_cfg(init={"BTC": 0, "USD": 0}, lendMode="margin", reqD=4,
                   cond={"BTC": margin_cond("BTC", 0, 1, 1, 0, 0), "USD": margin_cond("USD", 0, 1, 1, 0, 0)},
                   condAlt={"BTC": margin_cond("BTC", 0, 1, 1, 0, 0), "USD": margin_cond("USD", 0, 1, 1, 0, 4)})
    out.append({"cfg": cfg, "steps": [
        {"kind": "bar", "arg": dict(p=1, t=1, o=10, h=10, l=10, c=10, v=1000)},
        {"kind": "create_loan", "arg": {"sym": "USD", "amount": 100}},
        {"kind": "set_cond", "arg": {"sym": "USD", "which": "alt"}},
        {"kind": "create_loan", "arg": {"sym": "BTC", "amount": 5}},
        {"kind": "create_order", "arg": _req(type="market", op="sell", amount=3, ab=True)},
        {"kind": "bar", "arg": dict(p=1, t=2, o=10, h=10, l=10, c=10, v=1000)}]})
    # KF-1 (known finding, C04): a fill whose quote amount rounds to zero is ignored -- kept so that every run reports it
    cfg = base_cfg(scale={"BTC": 100, "USD": 100}, init={"BTC": 0, "USD": 1000})
    out.append({"cfg": cfg, "steps": [
        {"kind": "bar", "arg": dict(p=1, t=1, o=60, h=60, l=60, c=60, v=1000)},
        {"kind": "create_order", "arg": _req(type="limit", amount=2, limit=50)},
        {"kind": "bar", "arg": dict(p=1, t=2, o=2, h=5, l=2, c=5, v=1000)}]})
    # a repayment refused by the margin rule (the account fell below its requirement when the minimum interest of the
    # second loan started to count), attempted again and again: whatever happens inside the refused call -- however many
    # times it has been refused before -- the loan stays listed as open and the borrowed balance stays its principal
    # (round 5, C02-9: a loan closed for the duration of the call dropped out of the open-loans index on its 50th use)
    for nrep, stride, min_int in ((70, 7, 1), (110, 5, 2)):
        cfg = base_cfg(scale={"BTC": 10, "USD": 1}, init={"BTC": 0, "USD": 10}, lendMode="margin", quoteSym="USD", reqD=10,
                       cond={"USD": margin_cond("USD", pctN=0, pctD=1, period=2, minInt=0, reqN=5),
                             "BTC": margin_cond("USD", pctN=0, pctD=1, period=2, minInt=min_int, reqN=1)})
        steps = [{"kind": "bar", "arg": dict(p=1, t=1, o=10, h=10, l=10, c=10, v=1000)},
                 {"kind": "create_loan", "arg": {"sym": "USD", "amount": 19}},
                 {"kind": "create_loan", "arg": {"sym": "BTC", "amount": 1}}]
        for i in range(nrep):
            steps.append({"kind": "repay_loan", "arg": 2})
            if i % stride == 3:
                steps.append({"kind": "bar", "arg": dict(p=1, t=2 + i, o=10, h=10, l=10, c=10, v=1000)})
        steps.append({"kind": "repay_loan", "arg": 1})
        out.append({"cfg": cfg, "steps": steps})
    # D15: rollback of the first auto-borrow loan vetoed by the margin rule (found by a seed sweep)
    for name in ("corpus_d15.json", "corpus_d16.json"):      # D16: loan with unvaluable flat interest refused before touching the account
        path = os.path.join(os.path.dirname(os.path.abspath(__file__)), name)
        if os.path.exists(path):
            sc = json.load(open(path))
            out.append({"cfg": sc["cfg"], "steps": sc["steps"], "lift": sc.get("lift", {})})
    return out


def run_random(payload) -> dict:
    from . import exch_impl
    seed, profile, nbars, lift = payload
    d = Driver(seed, profile, nbars)
    script = {"cfg": d.cfg, "steps": d.bars, "policy": d.policy, "lift": lift}
    tr = exch_impl.run_script(script)
    tr["origin"] = {"seed": seed, "profile": profile, "nbars": nbars}
    return tr


# ------------------------------------------------------------------ the check ------------------------------------
PROFILE_FOR = {"C01": "mixed", "C02": "margin", "C04": "slip", "C05": "mixed", "C06": "mixed", "C07": "margin",
               "C08": "liquidity", "C09": "fees", "C10": "margin", "C11": "margin"}


def script_of_behaviour(cfg: dict, hist: list) -> dict:
    return {"cfg": cfg, "steps": [{"kind": h["call"]["kind"], "arg": h["call"]["arg"]} for h in hist]}


def sig_of(tr: dict) -> tuple:
    """(action, outcome class) signature of an executed trace, for distinct-case counting."""
    return tuple((s["kind"], s["ok"], s["err"]) for s in tr["steps"])


def check(rep: Report, tier: str, seed: int, prop: str = None):
    prop = prop or rep.prop
    rng = random.Random(seed * 1000003 + sum(map(ord, prop)))
    quick = tier == "quick"
    invs, props = MC_PREDICATES[prop]
    names = MC_FOR[prop][0] + ([] if quick else MC_FOR[prop][1])
    with tlc.scratch() as wd:
        write_mc_modules(wd)
        # ---- leg 1: MC ------------------------------------------------------------------------------------
        for name in names:
            m = MC[name]
            res = tlc.run(f"Exchange_MC_{name}", mc_cfg(m, invs, props), workdir=wd, timeout=3000)
            rep.add_tlc(f"Exchange/MC_{name}", res, {"bounds": m["bounds"], "cfg": m["cfg"]},
                        "exhaustive over all interleavings of the listed requests, bars and loans within the bounds")
            if not res.ok:
                rep.violation(Violation(prop, res.violated, "mc",
                                        {"config": name, "actions": res.ce_actions,
                                         "last_states": (res.counterexample or [])[-2:]},
                                        discriminator="model:" + name))
        rep.exhaustive = True
        if prop == "C09":
            # the unbounded argument for the closed form: for ALL rates, minimum fees, scales and sequences of fills the fees
            # charged add up to FeeDue(total traded) -- TLAPS, on the operators ExchangeCore uses (FeeCore.tla)
            from . import tlaps
            pr = tlaps.prove("FeeProof", wd)
            rep.extra["tlaps"] = pr
            if not pr["proved"]:
                raise tlc.MachineryError(f"TLAPS proof of the fee closed form no longer checks: {pr}")
        if not quick:
            for name in names:
                for probe in REACH_FOR.get(name, []):
                    res = tlc.run(f"Exchange_MC_{name}", mc_cfg(MC[name], [probe], []), workdir=wd, coverage=False,
                                  dump_trace=False)
                    if res.ok:
                        raise tlc.MachineryError(f"reachability probe {probe} unreachable in {name}: vacuous")
            rep.extra["reachability_probes"] = {n: REACH_FOR.get(n, []) for n in names}

        # ---- leg 2: behaviours of the model -> scripts ------------------------------------------------------
        jobs = []
        nsim = 150 if quick else 1500
        for name in names:
            m = MC[name]
            depth = 9
            res = tlc.run(f"Exchange_MC_{name}",
                          mc_cfg(m, ["EmitInv"], [], emit=True, emit_at=depth,
                                 bounds=dict(MaxBars=5, MaxCalls=6, MaxOrders=3, MaxLoans=3 if m["loans"] != "{}" else 0)),
                          workdir=wd, mode="sim", sim_num=nsim, sim_depth=depth, seed=seed + 17, workers=4, dump_trace=False)
            for h in res.emitted:
                jobs.append(("script", script_of_behaviour(m["cfg"], h)))
            rep.configs.append({"config": f"Exchange/SIM_{name}", "behaviours": len(res.emitted), "depth": depth})
        n_replay = len(jobs)
        # ---- leg 3: adaptive random driver ------------------------------------------------------------------
        nrand = 250 if quick else 4000
        profile = PROFILE_FOR[prop]
        for i in range(nrand):
            lift = {}
            if rng.random() < 0.5:
                lift = {"BTC": rng.choice([0, 2, 5]), "ETH": rng.choice([0, 3]), "USD": rng.choice([0, 1, 4])}
            elif rng.random() < 0.3:
                # very fine precisions (16 .. 24 decimals): amounts far below any "dust" tolerance, quantisation beyond 18 digits
                hi = rng.choice([14, 18, 22])
                lift = {"BTC": hi - 2, "ETH": hi - 2, "USD": hi, "EUR": hi - 2, "ARS": hi}
            elif rng.random() < 0.3:
                lift = {"BTC": "to8", "ETH": "to8", "USD": rng.choice([0, 2])}        # base precision exactly 8
            nb = rng.choice([8, 15, 30]) if quick or rng.random() < 0.9 else 320
            jobs.append(("random", (rng.getrandbits(40), profile if rng.random() < 0.7 else "mixed", nb, lift)))
        jobs += [("script", sc) for sc in corpus()]
        traces = run_jobs(jobs)
        slimmed = [slim(tr, i + 1) for i, tr in enumerate(traces)]
        verdicts = validate(slimmed, wd, rep)
        judge(rep, prop, traces, slimmed, verdicts, n_replay)
    rep.assumptions += [
        "the exchange is driven through its public API inside a real BacktestingDispatcher (max_concurrent=1, primary bar "
        "sources subscribed before the strategy), observation through get_balances/get_orders/get_loans/get_open_orders/order events",
        "Decimal values are projected to integer units of 10^-precision; a non-integral value fails clause Obs_Grid",
        "price impact constant is 0 in this engine (exact arithmetic); prices and amounts bounded so 32-bit TLC integers do not overflow (TLC aborts on overflow)",
        "interest periods are powers of two ticks so that elapsed/period is exact in binary floating point",
    ]
    rep.extra["rule"] = ("scripts = TLC-simulated behaviours of the MC configs + seeded adaptive random driver; a trace is "
                         "distinct by its sequence of (call kind, outcome class); non-trivial = at least one fill, rejection or loan")


def judge(rep: Report, prop: str, traces, slimmed, verdicts, n_replay: int):
    for i, (tr, sl) in enumerate(zip(traces, slimmed)):
        v = verdicts[sl["id"]]
        leg = "replay" if i < n_replay else "trace"
        if leg == "replay":
            rep.replays += 1
        else:
            rep.traces += 1
        rep.steps += v["judged"]
        hist = rep.extra.setdefault("judged_steps_by_kind_and_outcome", {})      # vacuity guard: what the traces exercised
        for s in tr["steps"][:v["judged"]]:
            key = s["kind"] + ("" if s["ok"] else "/" + str(s["err"]))
            hist[key] = hist.get(key, 0) + 1
        sig = sig_of(tr)
        last_obs = tr["steps"][-1]["obs"] if tr["steps"] else {"orders": [], "loans": []}
        nontrivial = (any(not s["ok"] for s in tr["steps"]) or any(o["filled"] > 0 for o in last_obs["orders"])
                      or len(last_obs["loans"]) > 0)
        if nontrivial:
            rep.distinct(hash(sig))
        if not v["viol"]:
            continue
        first = min(x["step"] for x in v["viol"])
        first_div = first
        clauses = sorted(x["clause"] for x in v["viol"] if x["step"] == first)
        mine = [c for c in clauses if CLAUSES.get(c) == prop]
        if not mine:
            later = sorted((x["step"], x["clause"]) for x in v["viol"] if x["clause"] in ROBUST and CLAUSES.get(x["clause"]) == prop)
            if later:
                first = later[0][0]
                clauses = sorted(x["clause"] for x in v["viol"] if x["step"] == first)
                mine = [c for st, c in later if st == first]
        step = tr["steps"][first - 1] if first <= len(tr["steps"]) else {"kind": "end", "arg": None, "ok": True, "err": ""}
        detail = {"trace": sl["id"], "leg": leg, "step": first, "first_divergence_step": first_div, "clauses_at_step": clauses,
                  "call": {"kind": step["kind"], "arg": step["arg"], "ok": step.get("ok"), "err": step.get("err")},
                  "origin": tr.get("origin"), "crash": tr.get("crash")}
        if mine:
            for c in mine[:1]:
                rep.violation(Violation(prop, c, leg, detail,
                                        script={"kind": "exchange", "cfg": tr["cfg"], "lift": tr.get("lift", {}),
                                                "steps": [{"kind": s["kind"], "arg": s["arg"]} for s in tr["steps"][:first]]},
                                        discriminator=discriminate(c, step, tr["cfg"])))
        elif not any(CLAUSES.get(c) for c in clauses):
            rep.drift.append(detail)
    if traces:
        k = next((i for i, t in enumerate(traces) if len(t["steps"]) > 3), 0)
        rep.sample({"leg": "replay" if k < n_replay else "trace", "cfg": traces[k]["cfg"],
                    "steps": [{"kind": s["kind"], "arg": s["arg"], "ok": s["ok"], "err": s["err"]} for s in traces[k]["steps"][:8]]})
        if len(traces) > n_replay:
            t = traces[n_replay]
            rep.sample({"leg": "trace", "origin": t.get("origin"), "cfg": t["cfg"],
                        "steps": [{"kind": s["kind"], "arg": s["arg"], "ok": s["ok"], "err": s["err"]} for s in t["steps"][:8]]})


def discriminate(clause: str, step: dict, cfg: dict) -> str:
    """The history class a known finding is keyed on: call kind + outcome + the configuration features involved."""
    if clause == "Act_C04_CompleteDust":
        return "zero_quote_fill_ignored"
    feats = [step["kind"], "ok" if step.get("ok") else "rejected:" + str(step.get("err"))]
    if cfg["lendMode"] == "margin":
        feats.append("margin")
    return "/".join(feats)


def replay(script: dict) -> int:
    """Re-execute a violation script against /repo and judge it again with TLC; prints the verdict."""
    from . import exch_impl
    tr = exch_impl.run_script({"cfg": script["cfg"], "steps": script["steps"], "lift": script.get("lift", {})})
    sl = slim(tr, 1)
    with tlc.scratch() as wd:
        v = validate([sl], wd, None, shards=1)[1]
    for s in tr["steps"]:
        print(json.dumps({"kind": s["kind"], "arg": s["arg"], "ok": s["ok"], "err": s["err"],
                          "bal": s["obs"]["bal"], "hold": s["obs"]["hold"], "bor": s["obs"]["bor"]}))
    print("verdict:", json.dumps(v))
    return 1 if any(CLAUSES.get(x["clause"]) for x in v["viol"]) else 0
