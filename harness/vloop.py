"""Deterministic virtual-time asyncio loop: the clock only advances when nothing is ready, jumping to the next timer.
basana.core.dt.utc_now is substituted from the harness process (no change to /repo)."""
from __future__ import annotations

import asyncio
import datetime
import heapq
import selectors

EPOCH = datetime.datetime(2020, 1, 1, tzinfo=datetime.timezone.utc)     # a multiple of 86400 s


class VLoop(asyncio.SelectorEventLoop):
    def __init__(self):
        super().__init__(selectors.SelectSelector())
        self._vt = 0.0

    def time(self):
        return self._vt

    def _run_once(self):
        # cancelled timers at the head of the heap must not hide the next live one (the base class would then really
        # sleep until it is due)
        while self._scheduled and self._scheduled[0]._cancelled:
            self._timer_cancelled_count -= 1
            handle = heapq.heappop(self._scheduled)
            handle._scheduled = False
        if not self._ready and self._scheduled:
            when = self._scheduled[0]._when
            if when > self._vt:
                self._vt = when
        super()._run_once()


def run(coro_fn, patch_modules=()):
    """Run coro_fn(loop) under virtual time; utc_now() == EPOCH + loop.time()."""
    import basana.core.dt as bdt
    loop = VLoop()
    asyncio.set_event_loop(loop)
    orig = bdt.utc_now

    def utc_now():
        return EPOCH + datetime.timedelta(microseconds=round(loop.time() * 1e6))
    bdt.utc_now = utc_now
    saved = []
    for mod, attr, val in patch_modules:
        saved.append((mod, attr, getattr(mod, attr)))
        setattr(mod, attr, val(loop) if callable(val) else val)
    try:
        return loop.run_until_complete(coro_fn(loop))
    finally:
        bdt.utc_now = orig
        for mod, attr, old in saved:
            setattr(mod, attr, old)
        try:
            pending = asyncio.all_tasks(loop)
            for t in pending:
                t.cancel()
            if pending:
                loop.run_until_complete(asyncio.gather(*pending, return_exceptions=True))
        finally:
            loop.close()
            asyncio.set_event_loop(None)


async def sleep_until(loop, t: float):
    d = t - loop.time()
    if d > 0:
        await asyncio.sleep(d)
