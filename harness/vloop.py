"""Deterministic virtual-time asyncio loop: the clock only advances when nothing is ready, jumping to the next timer.
basana.core.dt.utc_now is substituted from the harness process (no change to /repo)."""
from __future__ import annotations

import asyncio
import datetime
import heapq
import selectors

EPOCH = datetime.datetime(2020, 1, 1, tzinfo=datetime.timezone.utc)     # a multiple of 86400 s


class Livelock(RuntimeError):
    """The code under test keeps the loop busy without virtual time ever advancing (e.g. a sleep that became non-positive)."""


class VLoop(asyncio.SelectorEventLoop):
    MAX_ITERS = 3000000         # loop iterations of one scenario (callers with short scenarios pass a much smaller cap)
    MAX_SPINS = 20000           # loop iterations at one virtual instant before the run is declared live-locked

    def __init__(self):
        super().__init__(selectors.SelectSelector())
        self._vt = 0.0
        self._spins = 0
        self._spin_vt = 0.0
        self._iters = 0

    def time(self):
        return self._vt

    def _run_once(self):
        # cancelled timers at the head of the heap must not hide the next live one (the base class would then really
        # sleep until it is due)
        while self._scheduled and self._scheduled[0]._cancelled:
            self._timer_cancelled_count -= 1
            handle = heapq.heappop(self._scheduled)
            handle._scheduled = False
        self._iters += 1
        if self._iters > self.MAX_ITERS:
            self._iters = 0
            raise Livelock(f"{self.MAX_ITERS} loop iterations in one scenario (t={self._vt}): the code under test is spinning")
        if self._vt == self._spin_vt:
            self._spins += 1
            if self._spins > self.MAX_SPINS:
                self._spins = 0
                raise Livelock(f"no progress of virtual time at t={self._vt}")
        else:
            self._spin_vt, self._spins = self._vt, 0
        if not self._ready and self._scheduled:
            when = self._scheduled[0]._when
            if when > self._vt:
                self._vt = when
        super()._run_once()


import contextlib
import signal
import threading


@contextlib.contextmanager
def wall_clock_limit(seconds: float):
    """Raises Livelock in the main thread when the block burns more than `seconds` of CPU time of this process (not wall-clock
    time: a process that is merely descheduled on a busy machine does not trip it): code under test that spins without ever
    awaiting cannot be stopped from inside the event loop."""
    state = type("Limit", (), {"fired": False})()
    if threading.current_thread() is not threading.main_thread():
        yield state
        return

    def on_alarm(signum, frame):
        state.fired = True          # the code under test may swallow the exception: the flag stays, the timer fires again
        raise Livelock(f"no result after {seconds} s of CPU time")
    old = signal.signal(signal.SIGVTALRM, on_alarm)
    signal.setitimer(signal.ITIMER_VIRTUAL, seconds, 1.0)
    try:
        yield state
    finally:
        signal.setitimer(signal.ITIMER_VIRTUAL, 0)
        signal.signal(signal.SIGVTALRM, old)


def run(coro_fn, patch_modules=(), max_iters=None):
    """Run coro_fn(loop) under virtual time; utc_now() == EPOCH + loop.time()."""
    import basana.core.dt as bdt
    loop = VLoop()
    if max_iters:
        loop.MAX_ITERS = max_iters
    asyncio.set_event_loop(loop)
    orig = bdt.utc_now

    def utc_now():
        return EPOCH + datetime.timedelta(microseconds=round(loop.time() * 1e6))
    bdt.utc_now = utc_now
    saved = []
    for mod, attr, val in patch_modules:
        saved.append((mod, attr, getattr(mod, attr)))
        setattr(mod, attr, val(loop) if callable(val) else val)
    try:
        return loop.run_until_complete(coro_fn(loop))
    finally:
        bdt.utc_now = orig
        for mod, attr, old in saved:
            setattr(mod, attr, old)
        try:
            pending = asyncio.all_tasks(loop)
            for t in pending:
                t.cancel()
            if pending:
                loop.run_until_complete(asyncio.gather(*pending, return_exceptions=True))
        finally:
            loop.close()
            asyncio.set_event_loop(None)


async def sleep_until(loop, t: float):
    d = t - loop.time()
    if d > 0:
        await asyncio.sleep(d)
