"""Runs a script of bars and requests against the real backtesting exchange (/repo working tree) through its
public API, inside a real BacktestingDispatcher, and records one trace step per bar / per request with the
full observable projection (integer units) after the step.

Script:  {"cfg": <C record of ExchangeCore.tla>, "steps": [{"kind", "arg"} ...], "lift": {sym: k}}
Trace :  {"cfg", "steps": [{"kind", "arg", "ok", "err", "obs"} ...], "events": [...], "crash": str|None}
"""
from __future__ import annotations

import asyncio
import datetime
import logging
import uuid
from decimal import Decimal
from typing import Any, Dict, List

UTC = datetime.timezone.utc
T0 = datetime.datetime(2001, 1, 1, tzinfo=UTC)
TICK = datetime.timedelta(days=1)


def T(i: int) -> datetime.datetime:
    return T0 + i * TICK


class Proj:
    """Units <-> Decimal under scale lifting (real precision = model precision + lift)."""

    def __init__(self, cfg: dict, lift: Dict[str, int]):
        self.cfg = cfg
        # "to8": whatever the model's scale, the real precision of the symbol is exactly 8 decimals
        self.lift = {s: (8 - (len(str(cfg["scale"][s])) - 1) if lift.get(s) == "to8" else int(lift.get(s, 0))) for s in cfg["syms"]}
        self.rscale = {s: Decimal(cfg["scale"][s]) * (Decimal(10) ** self.lift[s]) for s in cfg["syms"]}
        self.offgrid: List[str] = []

    def prec(self, s: str) -> int:
        return len(str(self.cfg["scale"][s])) - 1 + self.lift[s]

    def amt(self, s: str, units: int) -> Decimal:
        return Decimal(units) / self.rscale[s]

    def price(self, pair: dict, p: int) -> Decimal:
        b, q = pair["b"], pair["q"]
        return (Decimal(p) / (Decimal(self.cfg["scale"][q]) * self.cfg["pm"])) * (Decimal(10) ** (self.lift[b] - self.lift[q]))

    def units(self, s: str, v: Decimal, what: str) -> int:
        x = Decimal(v) * self.rscale[s]
        n = x.to_integral_value()
        if n != x:
            self.offgrid.append(f"{what}:{s}={v}")
        return int(n)


def classify(e: BaseException) -> str:
    from basana.backtesting import errors
    if isinstance(e, errors.NotEnoughBalance):
        return "nebal"
    if isinstance(e, errors.NotFound):
        return "notfound"
    if isinstance(e, errors.NoPrice):
        return "noprice"
    if isinstance(e, errors.Error):
        return "error"
    return "crash:" + type(e).__name__


def margin_conditions(cfg: dict, pj: Proj, c: dict):
    from basana.backtesting import lending
    return lending.MarginLoanConditions(
        interest_symbol=c["isym"], interest_percentage=Decimal(c["pctN"]) * 100 / Decimal(c["pctD"]),
        interest_period=TICK * c["period"], min_interest=pj.amt(c["isym"], c["minInt"]),
        margin_requirement=Decimal(c["reqN"]) / Decimal(cfg["reqD"]))


def build_exchange(cfg: dict, pj: Proj, max_concurrent: int = 1):
    import basana as bs
    from basana.backtesting import exchange, fees, lending, liquidity
    from basana.core.pair import Pair

    d = bs.backtesting_dispatcher(max_concurrent=max_concurrent)
    if cfg["feeMode"] == "pct":
        # min fee is given in quote coins of the model; under lifting quote coins scale with the quote symbol
        qsyms = {p["q"] for k, p in enumerate(cfg["pairs"], start=1) if k != cfg.get("borrowOnly")}   # pairs that are traded
        assert len(qsyms) == 1 or cfg["minFeeN"] == 0, "a minimum fee needs a single quote symbol"
        q = next(iter(qsyms))
        fee = fees.Percentage(Decimal(cfg["feeN"]) * 100 / Decimal(cfg["feeD"]),
                              min_fee=Decimal(cfg["minFeeN"]) / Decimal(cfg["minFeeD"]) / (Decimal(10) ** pj.lift[q]))
    elif cfg["feeMode"] == "base":
        # a user-defined strategy (the FeeStrategy extension point): a share of the traded base amount, in the base symbol
        class BaseFee(fees.FeeStrategy):
            def calculate_fees(self, order, balance_updates):
                base = balance_updates.get(order.pair.base_symbol)
                if not base:
                    return {}
                return {order.pair.base_symbol: -abs(base) * Decimal(cfg["feeN"]) / Decimal(cfg["feeD"])}
        fee = BaseFee()
    else:
        fee = fees.NoFee()
    if cfg["liqMode"] == "inf":
        liq = liquidity.InfiniteLiquidity
    else:
        def liq():
            return liquidity.VolumeShareImpact(volume_limit_pct=Decimal(cfg["vlN"]) * 100 / Decimal(cfg["vlD"]),
                                               price_impact=Decimal(cfg.get("impactPct", 0)))
    if cfg["lendMode"] == "margin":
        # defaultCond: the conditions of one symbol are given as the strategy's DEFAULT conditions (only when every symbol
        # has conditions), the others are set per symbol and take precedence
        dsym = (cfg.get("defaultCond") or None) if all(cfg["cond"][s]["has"] for s in cfg["syms"]) else None
        lend = lending.MarginLoans(cfg["quoteSym"], default_conditions=margin_conditions(cfg, pj, cfg["cond"][dsym]) if dsym else None)
        for s in cfg["syms"]:
            c = cfg["cond"][s]
            if c["has"] and s != dsym:
                lend.set_conditions(s, margin_conditions(cfg, pj, c))
        if cfg.get("reuseLend"):
            # the same strategy object served another exchange before (a previous backtest of the application)
            exchange.Exchange(bs.backtesting_dispatcher(max_concurrent=1), {}, lending_strategy=lend)
    else:
        lend = lending.NoLoans()
    init = {s: pj.amt(s, cfg["init"][s]) for s in cfg["syms"] if cfg["init"][s] != 0}
    # the exchange keeps its built-in default pair info unless told otherwise; pairs whose two symbols are configured never
    # fall back to it (a precision of 0 is a configured precision)
    kw = {} if cfg.get("keepDefaultPairInfo", True) else {"default_pair_info": None}
    ex = exchange.Exchange(d, init, liquidity_strategy_factory=liq, fee_strategy=fee, lending_strategy=lend, **kw)
    for s in cfg["syms"]:
        # precOverride: the configured precision of a symbol that is only borrowed (never traded) may be coarser than the
        # model's units, so that loan amounts finer than the symbol's precision can be expressed
        ex.set_symbol_precision(s, cfg.get("precOverride", {}).get(s, pj.prec(s) - (len(str(cfg.get("istep", {}).get(s, 1))) - 1)))
    pairs = [Pair(p["b"], p["q"]) for p in cfg["pairs"]]
    if any(v > 1 for v in cfg.get("istep", {}).values()):
        # the pairs keep the model's precision although their symbols are configured coarser
        from basana.core.pair import PairInfo
        for p, pr in zip(cfg["pairs"], pairs):
            ex.set_pair_info(pr, PairInfo(base_precision=pj.prec(p["b"]), quote_precision=pj.prec(p["q"])))
    # harness knob (DESIGN.md §5 C05): the period of the open-list re-indexing, so that it fires within short histories
    if cfg.get("reindexEvery") and hasattr(ex._order_mgr._orders, "_reindex_every"):
        ex._order_mgr._orders._reindex_every = cfg["reindexEvery"]
    ex._verif_lending = lend          # the strategy object the caller configured (set_conditions is called on it later)
    return d, ex, pairs


async def observe(ex, cfg, pj: Proj, order_ids: List[str], loan_index: Dict[str, int], order_meta: List[dict]) -> dict:
    syms = cfg["syms"]
    bals = await ex.get_balances()
    bal, hold, bor, tot_ok = {}, {}, {}, True
    for s in syms:
        b = bals.get(s)
        if b is None:
            bal[s] = hold[s] = bor[s] = 0
            continue
        av, ho, bo = pj.units(s, b.available, "available"), pj.units(s, b.hold, "hold"), pj.units(s, b.borrowed, "borrowed")
        bal[s], hold[s], bor[s] = av + ho, ho, bo
        if b.total != b.available + b.hold - b.borrowed:
            tot_ok = False
    extra_syms = sorted(set(bals) - set(syms))
    all_orders = await ex.get_orders()
    # listings: every filter must be the matching sub-list of get_orders()
    listing_ok = [o.id for o in all_orders] == order_ids
    from basana.core.pair import Pair
    by_id = {o.id: o for o in all_orders}
    for pi, p in enumerate(cfg["pairs"], start=1):
        pr = Pair(p["b"], p["q"])
        for flag in (None, True, False):
            got = [o.id for o in await ex.get_orders(pair=pr, is_open=flag)]
            exp = [oid for oid, m in zip(order_ids, order_meta)
                   if m["pair"] == pi and (flag is None or by_id[oid].is_open == flag)] if listing_ok else got
            listing_ok = listing_ok and got == exp
    for flag in (True, False):
        got = [o.id for o in await ex.get_orders(is_open=flag)]
        listing_ok = listing_ok and got == [oid for oid in order_ids if oid in by_id and by_id[oid].is_open == flag]
    orders = []
    for oid, m in zip(order_ids, order_meta):
        o = by_id.get(oid)
        if o is None:
            listing_ok = False
            continue
        pr = cfg["pairs"][m["pair"] - 1]
        b, q = pr["b"], pr["q"]
        filled = pj.units(b, o.amount_filled, "amount_filled")
        remaining = pj.units(b, o.amount_remaining, "amount_remaining")
        fee_other = [s for s in o.fees if s != (b if cfg["feeMode"] == "base" else q)]
        orders.append({
            "state": "open" if o.is_open else ("completed" if remaining == 0 else "canceled"),
            "filled": filled, "remaining": remaining,
            "qfilled": pj.units(q, o.quote_amount_filled, "quote_amount_filled"),
            "fee": pj.units(q, o.fees.get(q, Decimal(0)), "fee"),
            "feeB": pj.units(b, o.fees.get(b, Decimal(0)), "fee_base") if b != q else 0,
            "feeOther": bool(fee_other),
            "amountOk": pj.units(b, o.amount, "amount") == m["amount"],
            "loans": sorted(loan_index[l] for l in o.loan_ids if l in loan_index),
        })
    loans = []
    for li in await ex.get_loans():
        if li.id not in loan_index:
            loan_index[li.id] = len(loan_index) + 1
    for li in await ex.get_loans():
        paid = {s: pj.units(s, li.paid_interest.get(s, Decimal(0)), "paid_interest") for s in syms}
        out = {s: pj.units(s, li.outstanding_interest.get(s, Decimal(0)), "outstanding_interest") for s in syms}
        isym = cfg["cond"][li.borrowed_symbol]["isym"] if cfg["cond"][li.borrowed_symbol]["has"] else li.borrowed_symbol
        loans.append({"open": li.is_open, "sym": li.borrowed_symbol,
                      "amount": pj.units(li.borrowed_symbol, li.borrowed_amount, "borrowed_amount"),
                      "paid": paid, "outInt": out.get(isym, 0),
                      "outOther": any(v for s, v in out.items() if s != isym)})
    # every filter of get_loans must be the matching sub-list of get_loans(); get_loan(id) must agree with the listing
    all_loans = await ex.get_loans()
    loan_listing_ok = True
    for sym in [None] + list(syms):
        for flag in (None, True, False):
            got = [l.id for l in await ex.get_loans(borrowed_symbol=sym, is_open=flag)]
            exp = [l.id for l in all_loans if (sym is None or l.borrowed_symbol == sym) and (flag is None or l.is_open == flag)]
            loan_listing_ok = loan_listing_ok and got == exp
    for l in all_loans[-3:]:
        one = await ex.get_loan(l.id)
        loan_listing_ok = loan_listing_ok and (one.id, one.is_open, one.borrowed_symbol, one.borrowed_amount) == \
            (l.id, l.is_open, l.borrowed_symbol, l.borrowed_amount)
    # loans referenced by orders may have been indexed only now
    for i, (oid, m) in enumerate(zip(order_ids, order_meta)):
        o = by_id.get(oid)
        if o is not None and i < len(orders):
            orders[i]["loans"] = sorted(loan_index[l] for l in o.loan_ids if l in loan_index)
    from basana.backtesting import errors as bterrors
    bidask = []
    for p in cfg["pairs"]:
        if pj.lift[p["b"]] != 0:
            # the half spread is truncated to the quote precision of a price per BASE coin: not invariant under lifting the base
            bidask.append([-1, -1])
            continue
        try:
            bid, ask = await ex.get_bid_ask(Pair(p["b"], p["q"]))
            f = Decimal(cfg["scale"][p["q"]]) * cfg["pm"] / (Decimal(10) ** (pj.lift[p["b"]] - pj.lift[p["q"]]))
            vals = []
            for x in (bid, ask):
                u = x * f
                if u != u.to_integral_value():
                    pj.offgrid.append(f"bidask:{p['b']}/{p['q']}={x}")
                vals.append(int(u))
            bidask.append(vals)
        except bterrors.NoPrice:
            bidask.append([0, 0])
    off = pj.offgrid[:]
    pj.offgrid.clear()
    import decimal as _decimal
    ctx = _decimal.getcontext()
    return {"ctxOk": ctx.prec == 28 and ctx.rounding == _decimal.ROUND_HALF_EVEN,
            "bal": bal, "hold": hold, "bor": bor, "bidask": bidask, "orders": orders, "loans": loans, "totalOk": tot_ok,
            "listingOk": bool(listing_ok), "loanListingOk": bool(loan_listing_ok), "offgrid": off, "extraSyms": extra_syms}


async def run_script_async(script: dict) -> dict:
    import basana as bs
    from basana.core import bar as bsbar
    from basana.core.enums import OrderOperation

    logging.disable(logging.CRITICAL)
    cfg = script["cfg"]
    pj = Proj(cfg, script.get("lift", {}))
    d, ex, pairs = build_exchange(cfg, pj, max_concurrent=script.get("max_concurrent", 1))
    steps = script["steps"]
    sources = [bs.FifoQueueEventSource() for _ in pairs]
    extra_source = bs.FifoQueueEventSource()      # a second feed that may carry bars of any pair (e.g. another bar period)
    # API steps grouped under the time of the preceding bar
    api_at: Dict[int, List[int]] = {}
    cur_t = None
    bar_events: Dict[int, Any] = {}
    for k, st in enumerate(steps):
        if st["kind"] == "bar":
            a = st["arg"]
            cur_t = a["t"]
            pr = cfg["pairs"][a["p"] - 1]
            vol = Decimal(a["v"]) / (pj.rscale[pr["b"]] * cfg["vs"])
            # a bar of the second feed may span several ticks (another bar period): it BEGINS before bars already seen
            ev = bsbar.BarEvent(T(a["t"]), bsbar.Bar(T(a["t"]) - TICK * int(a.get("span", 1)), pairs[a["p"] - 1], pj.price(pr, a["o"]),
                                                     pj.price(pr, a["h"]), pj.price(pr, a["l"]), pj.price(pr, a["c"]), vol))
            bar_events[id(ev)] = k
            (extra_source if a.get("dup") else sources[a["p"] - 1]).push(ev)
        else:
            assert cur_t is not None, "requests are issued from handlers: a bar must come first"
            api_at.setdefault(cur_t, []).append(k)

    out_steps: List[dict] = []
    policy = script.get("policy")          # optional adaptive driver: policy(t, last_obs) -> list of api steps
    executed = {"n": 0}
    order_ids: List[str] = []
    order_meta: List[dict] = []
    loan_index: Dict[str, int] = {}
    events: List[dict] = []
    seen_bars = set()
    crash = {"msg": None}

    async def obs():
        return await observe(ex, cfg, pj, order_ids, loan_index, order_meta)

    async def do_api(st: dict):
        kind, a = st["kind"], st["arg"]
        ok, err = True, ""
        rec = None
        try:
            if kind == "create_order":
                pr = cfg["pairs"][a["pair"] - 1]
                amount = pj.amt(pr["b"], a["amount"])
                if a.get("offgrid"):
                    amount = amount + Decimal(1) / (pj.rscale[pr["b"]] * 10)
                op = OrderOperation.BUY if a["op"] == "buy" else OrderOperation.SELL
                kw = dict(auto_borrow=a["ab"], auto_repay=a["ar"])
                pair = pairs[a["pair"] - 1]
                if a["type"] == "market":
                    r = await ex.create_market_order(op, pair, amount, **kw)
                elif a["type"] == "limit":
                    r = await ex.create_limit_order(op, pair, amount, pj.price(pr, a["limit"]), **kw)
                elif a["type"] == "stop":
                    r = await ex.create_stop_order(op, pair, amount, pj.price(pr, a["stop"]), **kw)
                else:
                    r = await ex.create_stop_limit_order(op, pair, amount, pj.price(pr, a["stop"]),
                                                         pj.price(pr, a["limit"]), **kw)
                order_ids.append(r.id)
                order_meta.append({"pair": a["pair"], "amount": a["amount"]})
            elif kind == "cancel_order":
                oid = order_ids[a - 1] if 1 <= a <= len(order_ids) else uuid.uuid4().hex
                await ex.cancel_order(oid)
            elif kind == "create_loan":
                li = await ex.create_loan(a["sym"], pj.amt(a["sym"], a["amount"]))
                loan_index.setdefault(li.id, len(loan_index) + 1)
            elif kind == "repay_loan":
                inv = {v: k2 for k2, v in loan_index.items()}
                await ex.repay_loan(inv.get(a, uuid.uuid4().hex))
            elif kind == "set_cond":
                c = (cfg["condAlt"] if a["which"] == "alt" else cfg["cond"])[a["sym"]]
                ex._verif_lending.set_conditions(a["sym"], margin_conditions(cfg, pj, c))
            elif kind == "get_open_orders":
                lst = await ex.get_open_orders()
                idx = {oid: i + 1 for i, oid in enumerate(order_ids)}
                st = dict(st)
                open_list = [idx.get(o.id, 0) for o in lst]
                per_pair_ok = True
                for pi, p in enumerate(pairs, start=1):
                    sub = [idx.get(o.id, 0) for o in await ex.get_open_orders(pair=p)]
                    per_pair_ok = per_pair_ok and sub == [i for i in open_list if i and order_meta[i - 1]["pair"] == pi]
                    # each call walks the open list once more
                rec = {"kind": kind, "arg": 1 + len(pairs), "ok": True, "err": "", "obs": None,
                       "openList": open_list, "perPairOk": per_pair_ok}
            else:
                raise ValueError(kind)
        except Exception as e:  # noqa: BLE001 - every outcome is part of the trace
            ok, err = False, classify(e)
        try:
            o = await obs()
        except Exception as e:  # noqa: BLE001 - never let the dispatcher swallow a failed observation
            crash["msg"] = f"observation failed after {kind}: {type(e).__name__}: {e}"
            if not ok and out_steps:
                # the request was REJECTED and yet the account can no longer be observed the way it could just before:
                # that alone shows it did not leave everything untouched (the last good observation is repeated, flagged)
                out_steps.append({"kind": kind, "arg": a, "ok": ok, "err": err, "obs": dict(out_steps[-1]["obs"]), "obsBroken": True})
                executed["n"] += 1
            d.stop()
            return
        if rec is None:
            rec = {"kind": kind, "arg": a, "ok": ok, "err": err, "obs": o}
        else:
            rec["obs"] = o
        out_steps.append(rec)
        executed["n"] += 1

    async def strategy(ev):
        t = int((ev.when - T0) / TICK)
        for k in api_at.pop(t, []):
            await do_api(steps[k])
        if policy is not None and t not in policy_done:
            policy_done.add(t)
            while True:
                nxt = policy(t, out_steps[-1]["obs"] if out_steps else None, out_steps)
                if not nxt:
                    break
                for st in nxt:
                    await do_api(st)

    policy_done = set()

    async def sniffer(ev):
        k = bar_events.get(id(ev))
        if k is None or k in seen_bars:
            return
        seen_bars.add(k)
        try:
            o = await obs()
        except Exception as e:  # noqa: BLE001 - the dispatcher would swallow it and the step would silently vanish
            crash["msg"] = f"observation failed after bar {steps[k]['arg']}: {type(e).__name__}: {e}"
            d.stop()
            return
        out_steps.append({"kind": "bar", "arg": steps[k]["arg"], "ok": True, "err": "", "obs": o})
        executed["n"] += 1

    async def on_order_event(ev):
        idx = {oid: i + 1 for i, oid in enumerate(order_ids)}
        o = ev.order
        m = order_meta[idx[o.id] - 1] if o.id in idx else None
        if m is None:
            events.append({"t": int((ev.when - T0) / TICK), "o": 0})
            return
        pr = cfg["pairs"][m["pair"] - 1]
        rem = pj.units(pr["b"], o.amount_remaining, "ev.remaining")
        events.append({"t": int((ev.when - T0) / TICK), "o": idx[o.id],
                       "info": {"state": "open" if o.is_open else ("completed" if rem == 0 else "canceled"),
                                "filled": pj.units(pr["b"], o.amount_filled, "ev.filled"),
                                "qfilled": pj.units(pr["q"], o.quote_amount_filled, "ev.qfilled"),
                                "fee": pj.units(pr["q"], o.fees.get(pr["q"], Decimal(0)), "ev.fee"),
                                "loans": sorted(loan_index.get(l, 0) for l in o.loan_ids)}})

    for s in sources:
        ex.add_bar_source(s)
    ex.add_bar_source(extra_source)
    for p in pairs:
        ex.subscribe_to_bar_events(p, strategy)
    ex.subscribe_to_order_events(on_order_event)
    d.subscribe_all(sniffer)
    try:
        await d.run(stop_signals=[])
    except BaseException as e:  # noqa: BLE001
        crash["msg"] = f"{type(e).__name__}: {e}"
    # a crash or an aborted bar leaves scripted steps unexecuted; the validator sees the truncation
    complete = executed["n"] >= len(steps) and crash["msg"] is None
    clock = 0
    for st in out_steps:
        if st["kind"] == "bar":
            clock = st["arg"]["t"]
        st["obs"]["clock"] = clock
        st.setdefault("openList", [])
        st.setdefault("perPairOk", True)
    return {"cfg": cfg, "steps": out_steps, "events": events, "crash": crash["msg"] or "", "complete": complete,
            "nsteps_script": len(steps), "lift": pj.lift}


def run_script(script: dict) -> dict:
    loop = asyncio.new_event_loop()
    try:
        return loop.run_until_complete(run_script_async(script))
    finally:
        loop.close()
        logging.disable(logging.NOTSET)
