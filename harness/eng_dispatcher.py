"""C12 C13 C03 (+ the backtesting half of C14) — the backtesting dispatcher.

  MC      BtDispatcher.tla over families of small configurations (Init chooses the configuration): every
          interleaving of handler segments with the dispatch loop, every job insertion order, max_concurrent 1..3
  TRACE   seeded random configurations run on the real BacktestingDispatcher (non-suspending, sleep(0) and
          externally-released suspension points); every recorded history is judged by TLC twice:
            DispTrace.tla          property predicates of DispProps.tla on the implementation's own history
            BtDispatcherTrace.tla  behaviour inclusion: the history must be a behaviour of BtDispatcher.tla
"""
from __future__ import annotations

import itertools
import json
import multiprocessing as mp
import os
import random
from typing import Dict, List

from . import tlc
from .common import Report, Violation
from .eng_exchange import tla

# MC runs keep only the history summary (KeepLog = FALSE): the history predicates are evaluated as step assertions
# collected in `bad` (NoBadClause) plus end-of-run invariants
INVS = {
    "C12": ["NoBadClause", "Inv_C12_NothingLeft", "Inv_C14_BoundedConcurrency"],
    "C13": ["NoBadClause", "Inv_C13_AllRan_Summary"],
    "C03": ["NoBadClause", "Inv_C03_NoLookAhead"],
    "C14": ["Inv_C14_BoundedConcurrency", "Inv_C12_NothingLeft", "Inv_C13_AllRan_Summary"],
}
CLAUSE_PROP = {
    "C12_GlobalOrder": "C12", "C12_ClockEqualsEventTime": "C12", "C12_ClockMonotone": "C12", "C12_StageOrder": "C12",
    "C12_AtMostOnce": "C12", "C12_ExactlyOnce": "C12", "C12_KnownEventsOnly": "C12",
    "C13_NotEarly": "C13", "C13_AtMostOnce": "C13", "C13_Ordered": "C13", "C13_AllRan": "C13", "C13_KnownJobsOnly": "C13", "C13_FaultContained": "C13",
    "C14_BoundedConcurrency": "C14", "C03_NoLookAhead": "C03",
}
# a failing handler or job must not prevent the others (C14 fault isolation): the exactly-once / all-ran clauses
# on configurations with raising programs are also C14's
ALSO_C14 = {"C12_ExactlyOnce", "C13_AllRan"}


def base_D(**over) -> dict:
    D = {"ns": 1, "evs": [[1]], "hs": [[1]], "pre": [], "post": [], "prog": [[[]]], "jobs": [], "maxc": 1,
         "stopOnErr": False, "barrier": True, "drainMax": True, "jobsReschedule": False}
    D.update(over)
    return D


# ------------------------------------------------------------------ configuration families (MC) -------------------
def fam_c13() -> List[dict]:
    """<= 3 jobs at times around two events, in every insertion order; a raising job; jobs scheduled by handlers and jobs."""
    out = []
    # prog 1: event handler (no effect); 2: job no-op; 3: raising job; 4: handler scheduling a job at now+2; 5: job scheduling a job
    prog = [[[]], [[]], [[{"op": "raise"}]], [[{"op": "sched", "delta": 2, "prog": 2}]],
            [[{"op": "sched", "delta": 1, "prog": 2}]]]
    for times in itertools.product([0, 1, 2, 3, 5, 6], repeat=3):
        if sorted(times) != list(times):
            continue
        for perm in set(itertools.permutations(times)):
            for maxc in (1, 2):
                jobs = [{"when": t, "prog": 2 if k else 3} for k, t in enumerate(perm)]
                out.append(base_D(evs=[[1, 3]], hs=[[1]], prog=prog, jobs=jobs, maxc=maxc))
    for perm in itertools.permutations([4, 5, 6, 7]):
        out.append(base_D(evs=[[1, 3]], hs=[[4]], prog=prog, jobs=[{"when": t, "prog": 2} for t in perm], maxc=1))
    out.append(base_D(evs=[[1, 3]], hs=[[1]], prog=prog, jobs=[{"when": 4, "prog": 5}, {"when": 6, "prog": 2}, {"when": 5, "prog": 2}],
                      jobsReschedule=True))
    return out


def fam_c12(rng: random.Random, n: int) -> List[dict]:
    out = []
    while len(out) < n:
        D = random_D(rng, "c12", small=True)
        out.append(D)
    return out


def fam_c03() -> List[dict]:
    """bar sources A B C and the derived source of A in every subscription order, max_concurrent 1..4,
    the strategy on A's derived source orders pair C; ties and distinct timestamps."""
    out = []
    roles = ["A", "dA", "B", "C"]
    for order in itertools.permutations(roles):
        pos = {r: i + 1 for i, r in enumerate(order)}
        for evs_c in ([1, 2], [2, 3]):
            for maxc in (1, 2, 4):
                for strat_segs in (1, 2):
                    hs, evs, prog = [None] * 4, [None] * 4, []
                    # handler ids: 1 exchange(A) 2 strategy 3 exchange(B) 4 exchange(C)
                    prog = [[[{"op": "match", "pair": 1}, {"op": "push", "src": pos["dA"]}]],
                            ([[{"op": "order", "pair": 3}]] if strat_segs == 1 else [[], [{"op": "order", "pair": 3}]]),
                            [[{"op": "match", "pair": 2}]], [[{"op": "match", "pair": 3}]]]
                    for r, h, e in (("A", 1, [1, 2]), ("dA", 2, []), ("B", 3, [1, 2]), ("C", 4, evs_c)):
                        hs[pos[r] - 1], evs[pos[r] - 1] = [h], e
                    out.append(base_D(ns=4, evs=evs, hs=hs, prog=prog, maxc=maxc))
    return out


def fam_c14() -> List[dict]:
    out = []
    prog = [[[], []], [[]], [[{"op": "raise"}]], [[], [], []]]
    for nsrc in (2, 3):
        for maxc in (1, 2, 3):
            for jobs in ([], [{"when": 1, "prog": 2}], [{"when": 1, "prog": 4}, {"when": 2, "prog": 3}]):
                out.append(base_D(ns=nsrc, evs=[[1, 2]] * nsrc, hs=[[1, 3]] + [[1]] * (nsrc - 1), prog=prog, jobs=jobs, maxc=maxc))
    return out


# ------------------------------------------------------------------ random configurations --------------------------
def random_D(rng: random.Random, profile: str, small: bool = False) -> dict:
    nprim = rng.randint(1, 2 if small else 3)
    nder = rng.randint(0, 1 if small else 2)
    ns = nprim + nder
    order = list(range(ns))
    rng.shuffle(order)                       # subscription position of each logical source
    is_derived = [False] * ns
    for k in range(nprim, ns):
        is_derived[order[k]] = True
    prog: List[list] = []

    def new_prog(segments):
        prog.append(segments)
        return len(prog)
    noop_job = new_prog([[]])
    raising_job = new_prog([[{"op": "raise"}]])
    two_seg_job = new_prog([[], []])
    resched_job = new_prog([[{"op": "sched", "delta": rng.choice([0, 1, 2]), "prog": noop_job}]])
    job_progs = [noop_job, noop_job, raising_job, two_seg_job, resched_job]
    derived_pos = [i + 1 for i in range(ns) if is_derived[i]]
    evs, hs = [], []
    multi = {"used": False}
    tmax = 3 if small else 6
    for i in range(ns):
        if is_derived[i]:
            evs.append([])
        else:
            n = rng.randint(1, 2 if small else 4)
            evs.append(sorted(rng.randint(1, 2 if small else tmax) for _ in range(n)))
        handlers = []
        for _ in range(rng.randint(1, 2 if small else 3)):
            nseg = rng.choice([1, 1, 2, 3])
            if small:      # interleavings explode with suspended handlers: at most one two-segment handler per configuration
                nseg = 2 if (not multi["used"] and rng.random() < 0.4) else 1
                multi["used"] = multi["used"] or nseg == 2
            segs = [[] for _ in range(nseg)]
            # derived sources only push "downstream" (to a derived source subscribed later) so that runs terminate
            targets = [p for p in derived_pos if (not is_derived[i]) or p > i + 1]
            if targets and rng.random() < 0.6:
                segs[rng.randrange(nseg)].append({"op": "push", "src": rng.choice(targets)})
            if rng.random() < 0.3:
                segs[rng.randrange(nseg)].append({"op": "sched", "delta": rng.choice([0, 1, 2, 4, -1, -2]), "prog": rng.choice(job_progs)})
            if rng.random() < 0.15:
                segs[rng.randrange(nseg)].append({"op": "raise"})
            handlers.append(new_prog(segs))
        hs.append(handlers)
    pre = [new_prog([[]] * (1 if small else rng.choice([1, 1, 2]))) for _ in range(rng.choice([0, 0, 1] if small else [0, 1, 2]))]
    post = [new_prog([[]] * (1 if small else rng.choice([1, 1, 2]))) for _ in range(rng.choice([0, 0, 1] if small else [0, 1, 2]))]
    if rng.random() < 0.2 and pre:
        prog[pre[0] - 1] = [[{"op": "raise"}]]
    if small:
        job_progs = [noop_job, noop_job, raising_job, resched_job]
    jobs = [{"when": rng.randint(0, tmax + 3), "prog": rng.choice(job_progs)} for _ in range(rng.choice([0, 0, 1, 2] if small else [0, 1, 2, 4, 7, 9]))]
    resched = any(e.get("op") == "sched" for p in job_progs for seg in prog[p - 1] for e in seg)
    return base_D(ns=ns, evs=evs, hs=hs, pre=pre, post=post, prog=prog, jobs=jobs,
                  maxc=rng.choice([1, 1, 2] if small else [1, 2, 3, 50]), jobsReschedule=resched,
                  stopOnErr=False)


def random_exchange_D(rng: random.Random) -> dict:
    """C03 shape: several bar sources, the exchange's derived sources, strategies ordering other pairs."""
    npairs = rng.randint(2, 4)
    roles = [("bar", p) for p in range(1, npairs + 1)] + [("der", p) for p in range(1, rng.randint(1, npairs) + 1)]
    rng.shuffle(roles)
    pos = {r: i + 1 for i, r in enumerate(roles)}
    prog, hs, evs = [], [], []
    tmax = rng.randint(2, 5)
    for kind, p in roles:
        if kind == "bar":
            effs = [{"op": "match", "pair": p}]
            if ("der", p) in pos:
                effs.append({"op": "push", "src": pos[("der", p)]})
            prog.append([effs])
            evs.append(sorted(set(rng.randint(1, tmax) for _ in range(rng.randint(1, 4)))))
        else:
            nseg = rng.choice([1, 1, 2, 3])
            segs = [[] for _ in range(nseg)]
            segs[rng.randrange(nseg)].append({"op": "order", "pair": rng.randint(1, npairs)})
            prog.append(segs)
            evs.append([])
        hs.append([len(prog)])
    return base_D(ns=len(roles), evs=evs, hs=hs, prog=prog, maxc=rng.choice([1, 1, 2, 3, 50]))


# ------------------------------------------------------------------ implementation runs ----------------------------
def _run_one(job):
    from . import disp_impl
    D, suspend, seed = job
    try:
        r = disp_impl.run_bt(D, suspend, seed)
    except Exception as e:  # noqa: BLE001
        import traceback
        return {"harness_error": f"{type(e).__name__}: {e}\n{traceback.format_exc()[-1200:]}"}
    return r


def run_impl(jobs):
    ctx = mp.get_context("fork")
    with ctx.Pool(tlc.NCPU) as pool:
        out = pool.map(_run_one, jobs, chunksize=max(1, len(jobs) // (tlc.NCPU * 4)))
    for o in out:
        if "harness_error" in o:
            raise tlc.MachineryError("dispatcher runner failed: " + o["harness_error"])
    return out


def slim(r: dict, tid: int) -> dict:
    return {"id": tid, "cfg": r["cfg"],
            "log": [{"kind": e["kind"], "ev": e["ev"], "job": e.get("job", 0), "src": e["src"], "when": e["when"], "h": e["h"],
                     "stage": e["stage"], "seg": e["seg"], "clock": e["clock"]} for e in r["log"]],
            "events": r["events"], "sched": r["sched"], "orders": r["orders"], "clean": r["clean"],
            "returned": r.get("outcome", "returned") == "returned"}


def tlc_batches(module: str, traces: List[dict], wd: str, postcondition: str, shards: int, deque: bool = False):
    from concurrent.futures import ThreadPoolExecutor
    paths = []
    for k in range(shards):
        part = traces[k::shards]
        if not part:
            continue
        path = os.path.join(wd, f"{module}-{random.getrandbits(40):x}-{k}.ndjson")
        with open(path, "w") as f:
            for tr in part:
                f.write(json.dumps(tr) + "\n")
        paths.append(path)

    def one(path):
        return tlc.run(module, tlc.cfg_text(postcondition=postcondition), workdir=wd, mode="trace",
                       env={"TRACE_FILE": path}, timeout=3000, dump_trace=False, java_heap="3g", deque=deque)
    with ThreadPoolExecutor(len(paths)) as ex:
        results = list(ex.map(one, paths))
    out = {}
    for res in results:
        if not res.ok:
            raise tlc.MachineryError(f"{module} run failed: " + res.tail[-2500:])
        for v in res.emitted:
            out[v["id"]] = v
    for p in paths:
        os.unlink(p)
    return out, results


def mc_module(name: str, cfgs: List[dict]) -> str:
    return (f"---- MODULE BtD_MC_{name} ----\nEXTENDS BtDispatcher\nMC_Cfgs == {{\n" +
            ",\n".join(tla(c) for c in cfgs) + "}\nMC_Init == \\E c \\in MC_Cfgs : InitWith(c)\n====\n")


def check(rep: Report, tier: str, seed: int, prop: str = None):
    prop = prop or rep.prop
    rng = random.Random(seed * 1000003 + sum(map(ord, prop)))
    quick = tier == "quick"
    with tlc.scratch() as wd:
        # ---- MC ---------------------------------------------------------------------------------------------
        fams: Dict[str, List[dict]] = {}
        if prop == "C13":
            fams["jobs"] = fam_c13()
            fams["random"] = [D for D in fam_c12(rng, 40 if quick else 300)]
        elif prop == "C12":
            fams["random"] = fam_c12(rng, 40 if quick else 400)
        elif prop == "C03":
            fams["exchange"] = fam_c03() if not quick else fam_c03()[::3]
            fams["random_exchange"] = [small_exchange(rng) for _ in range(20 if quick else 150)]
        else:
            fams["pool"] = fam_c14()
            fams["random"] = fam_c12(rng, 30 if quick else 250)
        import shutil
        specdir = os.path.join(wd, "specs")
        if not os.path.isdir(specdir):
            shutil.copytree(tlc.SPECS, specdir)
        cfg = tlc.cfg_text({"Cfg": 0, "Emit": False, "KeepLog": False}, init="MC_Init", next_="Next", invariants=INVS[prop])

        def mc(name, cfgs, budget, **kw):
            with open(os.path.join(specdir, f"BtD_MC_{name}.tla"), "w") as f:
                f.write(mc_module(name, cfgs))
            return tlc.run(f"BtD_MC_{name}", cfg, workdir=wd, timeout=budget, **kw)

        def report(name, cfgs, res, what):
            rep.add_tlc(f"BtDispatcher/MC_{name}", res, {"configurations": len(cfgs), "example": cfgs[0]}, what)
            if not res.ok:
                last = (res.counterexample or [[0, {}]])[-1][1]
                rep.violation(Violation(prop, res.violated, "mc",
                                        {"family": name, "D": last.get("D"), "bad": last.get("bad"), "log": last.get("log")},
                                        script={"kind": "dispatcher", "D": last.get("D")}, discriminator="model:" + name))
        for name, cfgs in fams.items():
            what = "Init chooses one configuration; all interleavings of handler segments and loop steps"
            seeded_random = name.startswith("random")
            try:
                res = mc(name, cfgs, (180 if quick else 1500) if seeded_random else 3000)
                report(name, cfgs, res, what)
                continue
            except tlc.MachineryError as e:
                if not seeded_random or "timed out" not in str(e):
                    raise
            # a seeded random configuration can be far larger than the others: every configuration gets its own budget, the
            # ones that exceed it are explored by random simulation instead (recorded: they are not exhaustively checked)
            over = []
            for k, D in enumerate(cfgs):
                try:
                    report(f"{name}_{k}", [D], mc(f"{name}_{k}", [D], 25 if quick else 90, workers=4), what)
                except tlc.MachineryError as e:
                    if "timed out" not in str(e):
                        raise
                    over.append(D)
            for k, D in enumerate(over):
                res = mc(f"{name}_sim{k}", [D], 600, mode="sim", sim_num=300 if quick else 3000, sim_depth=400, seed=seed + k, workers=4)
                report(f"{name}_sim{k}", [D], res, "random simulation (the exhaustive search of this configuration exceeded its time budget)")
            rep.extra["mc_budget_exceeded"] = {"family": name, "configurations": len(over), "of": len(cfgs)}
        rep.exhaustive = True

        # ---- implementation histories ------------------------------------------------------------------------
        n = 300 if quick else 4000
        jobs = []
        for i in range(n):
            if prop == "C03" and rng.random() < 0.7:
                D = random_exchange_D(rng)
            else:
                D = random_D(rng, prop.lower())
            jobs.append((D, rng.choice(["sleep0", "sleep0", "release"]), rng.getrandbits(30)))
        # the regression scenarios of DESIGN.md §7 (D1 look-ahead, D6 drain order)
        jobs.append((fam_c03()[0] | {"maxc": 1}, "sleep0", 1))
        for D in fam_c03()[:24]:
            jobs.append((dict(D, maxc=1), "sleep0", 2))
        for D in fam_c13()[-26:]:
            jobs.append((D, "sleep0", 3))
        # the same job families on a 100 ms and a 1 microsecond tick: several scheduled times inside one UTC second
        for k, D in enumerate(fam_c13()[-26:] if quick else fam_c13()):
            jobs.append((dict(D, tick_us=100000 if k % 2 == 0 else 1), "sleep0", 4))
        runs = run_impl(jobs)
        slimmed = [slim(r, i + 1) for i, r in enumerate(runs)]
        shards = min(tlc.NCPU, max(1, len(slimmed) // 25))
        verd, res1 = tlc_batches("DispTrace", slimmed, wd, "AllConsumed", shards)
        agg = res1[0]
        agg.distinct, agg.generated = sum(r.distinct for r in res1), sum(r.generated for r in res1)
        rep.add_tlc("DispTrace/TRACE", agg, None, f"{len(slimmed)} implementation histories judged by DispProps predicates")
        incl, res2 = tlc_batches("BtDispatcherTrace", slimmed, wd, "Verdicts", shards, deque=True)
        agg2 = res2[0]
        agg2.distinct, agg2.generated = sum(r.distinct for r in res2), sum(r.generated for r in res2)
        rep.add_tlc("BtDispatcherTrace/TRACE", agg2, None, "behaviour inclusion of the same histories in BtDispatcher.tla (silent loop steps inferred)")
        for r, sl in zip(runs, slimmed):
            rep.traces += 1
            rep.steps += len(sl["log"])
            rep.distinct(hash(json.dumps([sl["cfg"], [(e["ev"], e["job"], e["h"], e["seg"]) for e in sl["log"]]], sort_keys=True)))
            v = verd.get(sl["id"])
            iv = incl.get(sl["id"])
            if v is None or iv is None:
                raise tlc.MachineryError(f"no verdict for history {sl['id']}")
            failing = set(v["failing"])
            has_raise = any(e.get("op") == "raise" for p in sl["cfg"]["prog"] for seg in p for e in seg)
            mine = sorted(c for c in failing if CLAUSE_PROP.get(c) == prop or (prop == "C14" and c in ALSO_C14 and has_raise))
            if r["outcome"] != "returned" and prop == "C14":
                mine.append("C14_Outcome")
            detail = {"history": sl["id"], "failing": sorted(failing), "outcome": r["outcome"], "suspend": r["suspend"],
                      "D": sl["cfg"], "log": sl["log"][:40], "orders": sl["orders"]}
            if mine:
                rep.violation(Violation(prop, mine[0], "trace", detail,
                                        script={"kind": "dispatcher", "D": sl["cfg"], "suspend": jobs[sl["id"] - 1][1],
                                                "seed": jobs[sl["id"] - 1][2]},
                                        discriminator=mine[0]))
            elif iv["matched"] < iv["n"] + 1 and not failing:
                rep.drift.append({"history": sl["id"], "matched": iv["matched"], "of": iv["n"], "D": sl["cfg"],
                                  "next": sl["log"][iv["matched"]] if iv["matched"] < len(sl["log"]) else "end-of-run",
                                  "outcome": r["outcome"]})
        if prop == "C03":
            real_backtests(rep, rng, wd, quick)
        rep.sample({"leg": "trace", "D": slimmed[0]["cfg"], "log": slimmed[0]["log"][:10], "clean": slimmed[0]["clean"]})
        rep.extra["inclusion_accepted"] = sum(1 for sl in slimmed if incl[sl["id"]]["matched"] >= incl[sl["id"]]["n"] + 1)
        rep.extra["inclusion_total"] = len(slimmed)
    rep.assumptions += [
        "handlers are coroutines built from handler programs; suspension points are asyncio.sleep(0) or futures released "
        "one at a time in seeded random order by a separate task",
        "jobs never push events and handlers schedule jobs at now() or later (the statements quantify over these; DESIGN.md §7 O1/O2)",
    ]
    rep.extra["rule"] = "a history is distinct by (configuration, sequence of executed segments)"


def _run_real(job):
    from . import c03_real
    try:
        return c03_real.run_scenario(job)
    except Exception as e:  # noqa: BLE001
        import traceback
        return {"harness_error": f"{type(e).__name__}: {e}\n{traceback.format_exc()[-1200:]}"}


def _run_real_subprocess(job):
    """the same scenario in fresh interpreters with different hash seeds"""
    import subprocess
    import sys
    runs = []
    for hs in job["hashseeds"]:
        code = ("import sys, json; sys.path.insert(0, %r); sys.path.insert(0, %r); from harness import c03_real; "
                "print(json.dumps(c03_real.run_scenario(json.loads(sys.stdin.read()))))" % (os.path.dirname(os.path.dirname(os.path.abspath(__file__))), os.environ.get("VERIF_REPO", "/repo")))
        p = subprocess.run([sys.executable, "-c", code], input=json.dumps(dict(job, maxcs=[1, 50])), capture_output=True, text=True,
                           env=dict(os.environ, PYTHONHASHSEED=str(hs)))
        if p.returncode != 0:
            return {"harness_error": p.stderr[-1500:]}
        runs += json.loads(p.stdout.strip().splitlines()[-1])["runs"]
    return {"cfg": job, "runs": runs, "suspending": job["suspending"]}


def real_backtests(rep: Report, rng: random.Random, wd: str, quick: bool):
    """C03 on the real Exchange + dispatcher: the same scripted backtest for max_concurrent in {1, 2, 3, 50} (and, thorough tier,
    in fresh interpreters with different hash seeds); judged by TLC with C03Trace.tla."""
    from . import c03_real
    jobs = []
    for i in range(120 if quick else 1500):
        S = c03_real.random_scenario(rng)
        if rng.random() < 0.3:
            S["suspending"] = True
            for h in S["handlers"]:
                h["yields"] = rng.choice([0, 1, 2])
        jobs.append(S)
    jobs += c03_real.directed_scenarios()
    ctx = mp.get_context("fork")
    with ctx.Pool(tlc.NCPU) as pool:
        runs = pool.map(_run_real, jobs, chunksize=max(1, len(jobs) // (tlc.NCPU * 4)))
        # fresh interpreters with different hash seeds: the directed multi-pair-signal scenarios always, random ones in the
        # thorough tier
        sub = [S for S in c03_real.directed_scenarios() if S.get("hashseeds")]
        if not quick:
            sub += [dict(c03_real.random_scenario(rng), hashseeds=[0, 1, rng.randint(2, 10**6)]) for _ in range(60)]
        runs += pool.map(_run_real_subprocess, sub)
    for r in runs:
        if "harness_error" in r:
            raise tlc.MachineryError("real backtest runner failed: " + r["harness_error"])
    recs = [{"id": i, "runs": r["runs"], "suspending": r["suspending"]} for i, r in enumerate(runs, start=1)]
    verd, results = tlc_batches("C03Trace", recs, wd, "AllConsumed", min(tlc.NCPU, max(1, len(recs) // 20)))
    agg = results[0]
    agg.distinct, agg.generated = sum(x.distinct for x in results), sum(x.generated for x in results)
    rep.add_tlc("C03Trace/TRACE", agg, None, f"{len(recs)} real backtests x {len(runs[0]['runs'])} max_concurrent values")
    for i, r in enumerate(runs, start=1):
        rep.traces += len(r["runs"])
        rep.steps += sum(len(x["orders"]) for x in r["runs"])
        rep.distinct(hash(json.dumps(r["cfg"], sort_keys=True)))
        v = verd.get(i)
        if v is None:
            raise tlc.MachineryError(f"no verdict for backtest {i}")
        if v["failing"]:
            clause = sorted(v["failing"])[0]
            diff = None
            if clause == "C03_Deterministic":
                a = r["runs"][0]
                b = next(x for x in r["runs"] if x["orders"] != a["orders"] or x["balances"] != a["balances"])
                diff = {"maxc_a": a["maxc"], "maxc_b": b["maxc"],
                        "orders_only_in_a": [o for o in a["orders"] if o not in b["orders"]][:4],
                        "orders_only_in_b": [o for o in b["orders"] if o not in a["orders"]][:4]}
            rep.violation(Violation("C03", clause, "trace", {"failing": sorted(v["failing"]), "scenario": r["cfg"], "difference": diff},
                                    script={"kind": "real_backtest", "scenario": r["cfg"]}, discriminator=clause + "/real"))
    rep.sample({"leg": "trace-real", "scenario": {k: runs[0]["cfg"][k] for k in ("pairs", "wiring", "usd", "base")},
                "orders": runs[0]["runs"][0]["orders"][:4]})


def small_exchange(rng):
    return random_exchange_D(rng)


def replay(script: dict) -> int:
    from . import disp_impl
    r = disp_impl.run_bt(script["D"], script.get("suspend", "sleep0"), script.get("seed", 0))
    sl = slim(r, 1)
    with tlc.scratch() as wd:
        import shutil
        shutil.copytree(tlc.SPECS, os.path.join(wd, "specs"))
        verd, _ = tlc_batches("DispTrace", [sl], wd, "AllConsumed", 1)
    for e in sl["log"]:
        print(json.dumps(e))
    print("orders:", json.dumps(sl["orders"]), "outcome:", r["outcome"])
    print("verdict:", json.dumps(verd[1]))
    return 1 if verd[1]["failing"] else 0
