"""Thin driver around TLC (tla2tools 1.8): run a module with a config, parse what the harness needs.

All data that flows TLC -> Python goes through single-line `PrintT("@@" \\o ToJson(v))` records or
`-dumpTrace json` counterexamples, so no TLA+ value parser is needed.

Scratch (metadir, copied specs, traces) lives in a mkdtemp outside /repo and /verif and is removed.
"""
from __future__ import annotations

import contextlib
import dataclasses
import json
import os
import re
import shutil
import subprocess
import tempfile
import time
from typing import Any, Dict, List, Optional

SPECS = os.path.join(os.path.dirname(os.path.dirname(os.path.abspath(__file__))), "specs")
JAR = "/opt/veriftools/tla/tla2tools.jar"
CP = JAR + ":/opt/veriftools/tla/CommunityModules-deps.jar"
NCPU = os.cpu_count() or 4


class MachineryError(Exception):
    """TLC failed for a reason that is not a property violation (parse error, crash, timeout)."""


@contextlib.contextmanager
def scratch(prefix: str = "basana-verif-"):
    d = tempfile.mkdtemp(prefix=prefix, dir=os.environ.get("VERIF_SCRATCH", "/tmp"))
    try:
        yield d
    finally:
        shutil.rmtree(d, ignore_errors=True)


@dataclasses.dataclass
class TlcResult:
    ok: bool                                   # finished without violation
    violated: Optional[str] = None             # name of violated invariant / property
    violation_kind: Optional[str] = None       # invariant | action_property | temporal | deadlock | postcondition
    counterexample: Optional[list] = None      # list of [idx, state] (from -dumpTrace json), if available
    ce_actions: Optional[list] = None          # action names along the counterexample
    generated: int = 0
    distinct: int = 0
    depth: int = 0
    coverage: Dict[str, List[int]] = dataclasses.field(default_factory=dict)   # action -> [distinct, total]
    emitted: List[Any] = dataclasses.field(default_factory=list)               # parsed "@@" records
    wall_s: float = 0.0
    tail: str = ""
    cmd: str = ""

    def uncovered_actions(self, ignore=("Init",)) -> List[str]:
        return [a for a, (d, t) in self.coverage.items() if t == 0 and a not in ignore]


def cfg_text(constants: Dict[str, Any] = None, spec: str = "Spec", invariants=(), properties=(),
             constraints=(), action_constraints=(), view: str = None, postcondition: str = None,
             init: str = None, next_: str = None, deadlock: bool = False, symmetry: str = None,
             alias: str = None) -> str:
    out = []
    if constants:
        out.append("CONSTANTS")
        for k, v in constants.items():
            out.append(f"  {k} {'<-' if isinstance(v, Subst) else '='} {tla_value(v)}")
    if init and next_:
        out.append(f"INIT {init}")
        out.append(f"NEXT {next_}")
    else:
        out.append(f"SPECIFICATION {spec}")
    for i in invariants:
        out.append(f"INVARIANT {i}")
    for p in properties:
        out.append(f"PROPERTY {p}")
    for c in constraints:
        out.append(f"CONSTRAINT {c}")
    for c in action_constraints:
        out.append(f"ACTION_CONSTRAINT {c}")
    if view:
        out.append(f"VIEW {view}")
    if alias:
        out.append(f"ALIAS {alias}")
    if symmetry:
        out.append(f"SYMMETRY {symmetry}")
    if postcondition:
        out.append(f"POSTCONDITION {postcondition}")
    out.append(f"CHECK_DEADLOCK {'TRUE' if deadlock else 'FALSE'}")
    return "\n".join(out) + "\n"


class Subst(str):
    """A cfg constant given by substitution  C <- DefinedOperator  (for values cfg syntax cannot express)."""


def tla_value(v: Any) -> str:
    if isinstance(v, Subst):
        return str(v)
    if isinstance(v, bool):
        return "TRUE" if v else "FALSE"
    if isinstance(v, int):
        assert v >= 0, "cfg files cannot hold negative literals; use Subst"
        return str(v)
    if isinstance(v, str):
        return json.dumps(v)
    if isinstance(v, (set, frozenset)):
        return "{" + ", ".join(sorted(tla_value(x) for x in v)) + "}"
    if isinstance(v, (list, tuple)):
        return "<<" + ", ".join(tla_value(x) for x in v) + ">>"
    if isinstance(v, dict):
        return "[" + ", ".join(f"{k} |-> {tla_value(x)}" for k, x in v.items()) + "]"
    raise TypeError(v)


_RE_COV = re.compile(r"^<(\w+) line \d+, col \d+ to line \d+, col \d+ of module (\w+)>: (\d+):(\d+)")
_RE_STATES = re.compile(r"^(\d+) states generated, (\d+) distinct states found")
_RE_DEPTH = re.compile(r"^The depth of the complete state graph search is (\d+)")
_RE_SIMSTATES = re.compile(r"(\d+) states checked|The number of states generated: (\d+)")


_SPECS_LOCK = __import__("threading").Lock()


def ensure_specs(workdir: str) -> str:
    """Copy /verif/specs into the scratch dir once (thread-safe: trace batches run TLC from several threads)."""
    specdir = os.path.join(workdir, "specs")
    with _SPECS_LOCK:
        if not os.path.isdir(specdir):
            tmp = specdir + ".tmp"
            shutil.copytree(SPECS, tmp)
            os.rename(tmp, specdir)
    return specdir


def run(module: str, cfg: str, *, workdir: str, mode: str = "mc", workers: Optional[int] = None,
        sim_num: int = 100, sim_depth: int = 20, seed: Optional[int] = None, env: Dict[str, str] = None,
        timeout: float = 1800, coverage: bool = False, extra_modules=(), deque: bool = False,
        dump_trace: bool = True, cfg_name: Optional[str] = None, java_heap: str = None,
        tolerate: Optional[str] = None) -> TlcResult:
    """Run TLC on specs/<module>.tla with config text `cfg` inside `workdir` (a scratch dir)."""
    # copy all specs so EXTENDS/INSTANCE resolve; tiny files
    specdir = ensure_specs(workdir)
    cfg_name = cfg_name or f"{module}_{mode}_{int(time.time() * 1e6) % 10**9}.cfg"
    cfg_path = os.path.join(specdir, cfg_name)
    with open(cfg_path, "w") as f:
        f.write(cfg)
    meta = tempfile.mkdtemp(prefix="meta-", dir=workdir)
    ce_path = os.path.join(meta, "ce.json")
    if workers is None:
        workers = 1 if mode == "trace" else NCPU
    jopts = ["-XX:+UseParallelGC"]
    if java_heap:
        jopts.append(f"-Xmx{java_heap}")
    if deque:
        jopts.append("-Dtlc2.tool.queue.IStateQueue=StateDeque")
    cmd = ["java", *jopts, "-cp", CP, "tlc2.TLC", "-workers", str(workers), "-metadir", meta,
           "-noGenerateSpecTE", "-config", cfg_name]
    if mode == "sim":
        cmd += ["-simulate", f"num={sim_num}", "-depth", str(sim_depth)]
    if seed is not None:
        cmd += ["-seed", str(seed)]
    if coverage and mode == "mc":
        cmd += ["-coverage", "1"]
    if dump_trace:
        cmd += ["-dumpTrace", "json", ce_path]
    cmd.append(module + ".tla")
    penv = dict(os.environ)
    penv.pop("JAVA_TOOL_OPTIONS", None)
    if env:
        penv.update(env)
    t0 = time.time()
    try:
        p = subprocess.run(cmd, cwd=specdir, env=penv, stdout=subprocess.PIPE, stderr=subprocess.STDOUT,
                           timeout=timeout, text=True, errors="replace")
    except subprocess.TimeoutExpired as e:
        subprocess.run(["pkill", "-f", meta], check=False)
        raise MachineryError(f"TLC timed out after {timeout}s: {' '.join(cmd)}") from e
    res = TlcResult(ok=False, wall_s=time.time() - t0, cmd=" ".join(cmd[cmd.index("tlc2.TLC"):]))
    out = p.stdout
    res.tail = out[-6000:]
    i = out.find("Error:")
    if i >= 0:
        res.tail = out[i:i + 2500] + "\n...\n" + out[-2500:]
    for line in out.splitlines():
        if line.startswith('"@@'):
            try:
                res.emitted.append(json.loads(json.loads(line)[2:]))
            except Exception as e:  # pragma: no cover
                raise MachineryError(f"unparseable emitted record: {line[:300]}") from e
            continue
        m = _RE_COV.match(line)
        if m:
            # several disjuncts of one action share a name: accumulate
            d, t = int(m.group(3)), int(m.group(4))
            cur = res.coverage.get(m.group(1), [0, 0])
            res.coverage[m.group(1)] = [cur[0] + d, cur[1] + t]
            continue
        m = _RE_STATES.match(line)
        if m:
            res.generated, res.distinct = int(m.group(1)), int(m.group(2))
            continue
        m = _RE_DEPTH.match(line)
        if m:
            res.depth = int(m.group(1))
            continue
        m = re.match(r"^Error: Invariant (\S+) is violated", line)
        if m:
            res.violated, res.violation_kind = m.group(1), "invariant"
            continue
        m = re.match(r"^Error: Action property (\S+) is violated", line)
        if m:
            res.violated, res.violation_kind = m.group(1), "action_property"
            continue
        if line.startswith("Error: Temporal properties were violated"):
            res.violated, res.violation_kind = res.violated or "temporal", "temporal"
            continue
        if line.startswith("Error: Deadlock reached"):
            res.violated, res.violation_kind = "deadlock", "deadlock"
            continue
        m = re.match(r"^Error: .*[Pp]ostcondition (\S*)", line)
        if m and "violated" in line:
            res.violated, res.violation_kind = "postcondition", "postcondition"
            continue
    if mode == "sim" and not res.generated:
        m = re.search(r"The number of states generated: (\d+)", out)
        if m:
            res.generated = int(m.group(1))
            res.distinct = res.generated
    if os.path.exists(ce_path) and res.violated:
        try:
            ce = json.load(open(ce_path))["counterexample"]
            res.counterexample = ce.get("state")
            res.ce_actions = [a[1].get("name") if isinstance(a[1], dict) else str(a[1]) for a in ce.get("action", [])]
        except Exception:
            pass
    finished = ("Model checking completed. No error has been found." in out) or \
               (mode == "sim" and re.search(r"Finished in|The number of states generated", out) and not res.violated
                and "Error:" not in out)
    if res.violated:
        res.ok = False
    elif finished:
        res.ok = True
    elif tolerate and tolerate in out:
        res.ok = False               # the caller knows how to go on after this particular evaluation error
    else:
        raise MachineryError("TLC did not finish cleanly:\n" + res.tail)
    shutil.rmtree(meta, ignore_errors=True)
    return res


def sany(module: str) -> None:
    p = subprocess.run(["java", "-cp", CP, "tla2sany.SANY", module + ".tla"], cwd=SPECS,
                       stdout=subprocess.PIPE, stderr=subprocess.STDOUT, text=True)
    if p.returncode != 0 or "error" in p.stdout.lower().replace("semantic errors:\n\n", ""):
        if "Semantic errors" in p.stdout or "Parse Error" in p.stdout or "Fatal" in p.stdout or p.returncode != 0:
            raise MachineryError(f"SANY rejects {module}:\n{p.stdout[-2000:]}")
