"""C16 (signed requests verify against the bytes sent) and C17 (parameters / payloads cross the wire without loss).

  C16  Signing.tla model-checked over a class table MEASURED from the real libraries (urlencode vs aiohttp/yarl query vs
       aiohttp form body, every printable ASCII character + %XX sequences + non-ASCII); every value shape of the model is
       concretised and sent through every authenticated entry point of the real clients to a loopback server that verifies
       the signature over the raw bytes it received; requests judged by TLC (ApiTrace.tla / SigningProps.tla)
  C17  WireFormat.tla (plain fixed-point rule, timestamp and status decoding, endpoint routing); one implementation test per
       (digits, exponent) x order entry point through the loopback server, wrapper objects on generated payloads; records judged
       by TLC (ApiTrace.tla / WireFormat.tla)
"""
from __future__ import annotations

import asyncio
import datetime
import itertools
import json
import random
import re
from decimal import Decimal
from urllib.parse import urlencode

from . import tlc
from .common import Report, Violation

PROP_OF = {"C17_PayloadSum": "C17", "C16_ServerAccepts": "C16", "C16_KeyAccompanies": "C16", "C16_Fresh": "C16", "C16_NonceUnique": "C16",
           "C17_Plain": "C17", "C17_OmitUnset": "C17", "C17_Endpoint": "C17", "C17_Timestamp": "C17", "C17_Status": "C17",
           "C17_PayloadDecimal": "C17"}
DRIFT = {"C17_ExactText"}


# ------------------------------------------------------------------ C16: measuring the encoders --------------------
def token_kind(ch: str, out: str) -> str:
    if out == ch:
        return "lit"
    if ch == " " and out == "+":
        return "plus"
    if out == "".join(f"%{b:02X}" for b in ch.encode("utf-8")):
        return "pct"
    if out.upper() == "".join(f"%{b:02X}" for b in ch.encode("utf-8")):
        return "pctlower"
    return "other:" + out


async def measure_tables():
    """What urlencode / aiohttp query / aiohttp form body emit for every printable ASCII character, a few non-ASCII ones and
    a few multi-character atoms (existing %XX sequences)."""
    import aiohttp
    from . import sig_impl
    atoms = [chr(c) for c in range(0x20, 0x7F)] + ["é", "€", "日", "%41", "%2F", "%zz", "a%"]
    srv = sig_impl.Loopback()
    await srv.start()
    rows = []
    try:
        async with aiohttp.ClientSession() as s:
            for a in atoms:
                n0 = len(srv.records)
                async with s.get(f"http://127.0.0.1:{srv.port}/m", params={"k": a}) as r:
                    await r.read()
                async with s.post(f"http://127.0.0.1:{srv.port}/m", data=aiohttp.FormData({"k": a})) as r:
                    await r.read()
                q = srv.records[n0]["raw_qs"][2:]
                b = srv.records[n0 + 1]["body"][2:]
                rows.append({"atom": a, "sign": token_kind(a, urlencode({"k": a})[2:]), "query": token_kind(a, q), "body": token_kind(a, b)})
    finally:
        await srv.stop()
    return rows


def classes_of(rows):
    cls = {}
    for r in rows:
        key = (r["sign"].split(":")[0], r["query"].split(":")[0] if r["query"] == r["sign"] else "q:" + r["query"],
               r["body"].split(":")[0] if r["body"] == r["sign"] else "b:" + r["body"])
        cls.setdefault(key, []).append(r["atom"])
    table = []
    for i, (key, atoms) in enumerate(sorted(cls.items(), key=lambda kv: kv[1][0]), start=1):
        table.append({"cls": f"k{i}", "sign": "s", "query": "s" if not key[1].startswith("q:") else "q" + str(i),
                      "body": "s" if not key[2].startswith("b:") else "b" + str(i), "atoms": atoms, "detail": key})
    return table


def endpoints_tla():
    eps = []
    for name, ex, placement, signed in [("spot.query_order", "binance", "query", True), ("spot.create_order", "binance", "body", True),
                                        ("spot.keep_alive", "binance", "body", False), ("spot.account", "binance", "none", True),
                                        ("bts.order_status", "bitstamp", "body", True), ("bts.ws_token", "bitstamp", "none", True)]:
        eps.append(f'[name |-> "{name}", exchange |-> "{ex}", placement |-> "{placement}", signed |-> {"TRUE" if signed else "FALSE"}, '
                   f'keyed |-> TRUE]')
    return "{" + ", ".join(eps) + "}"


# ------------------------------------------------------------------ C17 helpers ------------------------------------
def norm(d: Decimal):
    n = d.normalize()
    t = n.as_tuple()
    coef = int("".join(map(str, t.digits)))
    return coef, int(t.exponent)


def decimal_grid(rng, quick):
    coefs = [1, 10, 85, 100, 123, 1050]
    exps = range(-14, 15)
    grid = [(c, e) for c in coefs for e in exps if 1e-12 <= c * 10.0 ** e <= 1e12]
    if quick:
        grid = rng.sample(grid, 40) + [(85, -8), (1, 3), (100, -2), (1050, -14 + 3)]
    return grid


async def run_routes_and_decimals(grid, extra_random):
    """Every order entry point of both exchanges (request classes -> clients) with every decimal of the grid."""
    import aiohttp
    from . import sig_impl
    from basana.core.enums import OrderOperation
    from basana.core.pair import Pair
    from basana.external.binance import client as bcli, spot_requests, margin_requests
    from basana.external.bitstamp import client as btcli, requests as bts_requests

    srv = sig_impl.Loopback()
    await srv.start()
    base = f"http://127.0.0.1:{srv.port}/"
    recs = []
    pair = Pair("BTC", "USDT")
    try:
        async with aiohttp.ClientSession() as session:
            bapi = bcli.APIClient(sig_impl.KEY, sig_impl.SECRET, session=session, config_overrides={"api": {"http": {"base_url": base}}})
            tapi = btcli.APIClient(sig_impl.KEY, sig_impl.SECRET, session=session, config_overrides={"api": {"http": {"base_url": base}}})

            def entries(amount, price):
                out = []
                for op in (OrderOperation.BUY, OrderOperation.SELL):
                    side = "BUY" if op == OrderOperation.BUY else "SELL"
                    out += [
                        ("binance_spot", "MARKET", side, {"quantity": amount}, lambda op=op: spot_requests.MarketOrder(op, pair, amount=amount).create_order(bapi.spot_account)),
                        ("binance_spot", "MARKET", side, {"quoteOrderQty": amount}, lambda op=op: spot_requests.MarketOrder(op, pair, quote_amount=amount).create_order(bapi.spot_account)),
                        ("binance_spot", "LIMIT", side, {"quantity": amount, "price": price}, lambda op=op: spot_requests.LimitOrder(op, pair, amount, price).create_order(bapi.spot_account)),
                        ("binance_spot", "STOP_LOSS_LIMIT", side, {"quantity": amount, "price": price, "stopPrice": price},
                         lambda op=op: spot_requests.StopLimitOrder(op, pair, amount, price, price).create_order(bapi.spot_account)),
                        ("binance_spot", "OCO", side, {"quantity": amount, "price": price, "stopPrice": price, "stopLimitPrice": price},
                         lambda op=op: spot_requests.OCOOrder(op, pair, amount, price, price, stop_limit_price=price).create_order(bapi.spot_account)),
                        ("binance_spot", "OCO", side, {"quantity": amount, "price": price, "stopPrice": price},
                         lambda op=op: spot_requests.OCOOrder(op, pair, amount, price, price).create_order(bapi.spot_account)),
                        ("binance_margin", "OCO", side, {"quantity": amount, "price": price, "stopPrice": price, "stopLimitPrice": price},
                         lambda op=op: margin_requests.OCOOrder(op, pair, amount, price, price, stop_limit_price=price).create_order(bapi.isolated_margin_account)),
                        ("binance_margin", "MARKET", side, {"quantity": amount}, lambda op=op: margin_requests.MarketOrder(op, pair, amount=amount).create_order(bapi.cross_margin_account)),
                        ("binance_margin", "LIMIT", side, {"quantity": amount, "price": price}, lambda op=op: margin_requests.LimitOrder(op, pair, amount, price).create_order(bapi.isolated_margin_account)),
                        ("binance_margin", "STOP_LOSS_LIMIT", side, {"quantity": amount, "price": price, "stopPrice": price},
                         lambda op=op: margin_requests.StopLimitOrder(op, pair, amount, price, price).create_order(bapi.cross_margin_account)),
                        ("binance_margin", "OCO", side, {"quantity": amount, "price": price, "stopPrice": price},
                         lambda op=op: margin_requests.OCOOrder(op, pair, amount, price, price).create_order(bapi.cross_margin_account)),
                        ("bitstamp", "MARKET", side, {"amount": amount}, lambda op=op: bts_requests.MarketOrder(op, pair, amount).create_order(tapi)),
                        ("bitstamp", "LIMIT", side, {"amount": amount, "price": price}, lambda op=op: bts_requests.LimitOrder(op, pair, amount, price).create_order(tapi)),
                        ("bitstamp", "INSTANT", side, {"amount": amount}, lambda op=op: bts_requests.InstantOrder(op, pair, amount).create_order(tapi)),
                    ]
                out.append(("binance_margin", "TRANSFER", "BUY", {"amount": amount}, lambda: bapi.cross_margin_account.transfer_from_spot_account("USDT", amount)))
                return out
            allowed = {"symbol", "side", "type", "timeInForce", "quantity", "quoteOrderQty", "price", "stopPrice", "stopLimitPrice",
                       "stopLimitTimeInForce", "isIsolated", "sideEffectType", "timestamp", "signature", "amount", "asset"}
            values = [Decimal(c).scaleb(e) for c, e in grid] + extra_random
            for k, amount in enumerate(values):
                price = values[(k * 7 + 3) % len(values)]
                for exchange, typ, side, fields, fn in entries(amount, price):
                    n0 = len(srv.records)
                    err = ""
                    try:
                        await fn()
                    except Exception as e:  # noqa: BLE001
                        err = f"{type(e).__name__}: {e}"
                    got = srv.records[n0] if len(srv.records) > n0 else {"params": {}, "path": "", "raw_qs": "", "body": ""}
                    p = got["params"]
                    for fname, d in fields.items():
                        text = p.get(fname, "<missing>")
                        plain = re.fullmatch(r"[0-9]+(\.[0-9]+)?", text) is not None
                        try:
                            gc, ge = norm(Decimal(text))
                        except Exception:  # noqa: BLE001
                            gc, ge = -1, 0
                        c, e = norm(d)
                        t = d.as_tuple()
                        recs.append({"kind": "decimal", "entry": f"{exchange}.{typ}.{fname}", "coef": c, "exp": e,
                                     "raw_coef": int("".join(map(str, t.digits))), "raw_exp": int(t.exponent), "text": text,
                                     "plain_text": plain, "got_coef": gc, "got_exp": ge, "value": str(d), "err": err})
                    if k < 3 and typ != "TRANSFER":
                        unexpected = sorted(x for x in p if (exchange != "bitstamp" and x not in allowed) or p[x] in ("None", ""))
                        recs.append({"kind": "route", "exchange": exchange, "type": typ, "side": side,
                                     "action": got["path"].split("/")[3] if exchange == "bitstamp" and got["path"].count("/") > 3 else "",
                                     "lpair": "btcusdt", "upair": "BTCUSDT", "wire_type": typ,
                                     "got_path": got["path"], "got_symbol": p.get("symbol", ""), "got_side": p.get("side", ""),
                                     "got_type": p.get("type", typ if typ == "OCO" else ""), "unexpected": unexpected, "err": err,
                                     "given": sorted(fields), "got_names": sorted(p)})
    finally:
        await srv.stop()
    return recs


def decode_records(rng, quick):
    from basana.external.binance import helpers as bh
    from basana.external.bitstamp import trades as bts_trades, orders as bts_orders, order_book as bts_ob, exchange as bts_ex
    from basana.core.pair import Pair
    recs = []
    epoch = datetime.datetime(1970, 1, 1, tzinfo=datetime.timezone.utc)

    def limbs(d):
        delta = d - epoch
        return delta.days, delta.seconds, delta.microseconds
    n = 200 if quick else 5000
    import os
    import time as _time
    zones = ["UTC", "America/Argentina/Buenos_Aires", "Europe/London", "Asia/Tokyo", "XYZ+3:30"]
    for i in range(n):
        # the decoders must not depend on the process' local timezone
        os.environ["TZ"] = zones[i % len(zones)]
        _time.tzset()
        days = rng.randint(14610, 47480)                 # 2010 .. 2100
        sec = rng.choice([0, 86399, rng.randint(0, 86399)])
        ms = rng.choice([0, 999, 1, 500, rng.randint(0, 999)])
        us = rng.choice([0, 999999, 1, 999000, 1000, rng.randint(0, 999999)])
        tms = (days * 86400 + sec) * 1000 + ms
        tus = (days * 86400 + sec) * 10**6 + us
        cases = [("ms", tms, ms, lambda: bh.timestamp_to_datetime(tms)),
                 ("us", tus, us, lambda: bts_trades.Trade(Pair("BTC", "USD"), {"microtimestamp": str(tus)}).datetime),
                 ("us", tus, us, lambda: bts_orders.Order(Pair("BTC", "USD"), {"microtimestamp": str(tus)}).datetime),
                 ("us", tus, us, lambda: bts_ob.OrderBook(Pair("BTC", "USD"), {"microtimestamp": str(tus)}).datetime)]
        for unit, raw, frac, fn in cases:
            try:
                d = fn()
                gd, gs, gu = limbs(d)
                utc = d.utcoffset() == datetime.timedelta(0)
            except Exception as e:  # noqa: BLE001
                gd, gs, gu, utc = -1, -1, -1, False
            recs.append({"kind": "timestamp", "unit": unit, "days": days, "sec": sec, "frac": frac, "got_days": gd, "got_sec": gs,
                         "got_usec": gu, "got_utc": bool(utc), "raw": str(raw)})
    os.environ["TZ"] = "UTC"
    _time.tzset()
    for kind, fn, statuses in [("binance", bh.order_status_is_open, ["NEW", "PARTIALLY_FILLED", "FILLED", "CANCELED", "PENDING_CANCEL", "REJECTED", "EXPIRED"]),
                               ("binance_oco", bh.oco_order_status_is_open, ["EXECUTING", "ALL_DONE", "REJECT"]),
                               ("bitstamp", lambda s: bts_ex.OrderInfo(Pair("BTC", "USD"), bts_ex.OrderStatus({"id": 1, "status": s, "amount_remaining": "0"})).is_open,
                                ["Open", "Finished", "Expired", "Canceled"])]:
        for s in statuses:
            try:
                recs.append({"kind": "status", "skind": kind, "decoded": True, "is_open": bool(fn(s)), "status": s})
            except Exception:  # noqa: BLE001
                recs.append({"kind": "status", "skind": kind, "decoded": False, "is_open": False, "status": s})
    # payload decimals through wrapper objects
    for i in range(100 if quick else 2000):
        d = Decimal(rng.randint(1, 10**6)).scaleb(rng.randint(-12, 6))
        txt = rng.choice([str(d), format(d, "f"), format(d, "f") + "0"])
        for fn in (lambda: bts_ex.OrderStatus({"id": 1, "status": "Open", "amount_remaining": txt}).amount_remaining,
                   lambda: bts_trades.Trade(Pair("BTC", "USD"), {"amount_str": txt, "amount": 0, "price_str": txt, "price": 0}).amount,
                   lambda: bh.get_optional_decimal({"p": txt}, "p", False)):
            try:
                gc, ge = norm(Decimal(fn()))
            except Exception:  # noqa: BLE001
                gc, ge = -1, 0
            c, e = norm(Decimal(txt))
            recs.append({"kind": "payload_decimal", "coef": c, "exp": e, "got_coef": gc, "got_exp": ge, "text": txt, "label": "basic"})
    recs += decode_wrappers(rng, quick)
    return recs


def decode_wrappers(rng, quick):
    """Every decimal / timestamp field of the payload wrapper classes of both clients, and the totals they accumulate
    (fees per asset over the trades of an order, filled amounts over the transactions of an order)."""
    from basana.external.binance import common as bc, user_data as bud, trades as btr, klines as bkl, order_book as bob
    from basana.external.bitstamp import exchange as sx, orders as so, trades as st, order_book as sob
    from basana.core.pair import Pair
    P = Pair("BTC", "USD")
    recs = []

    def ob_first(cls, side, k):
        def f(t):
            book = cls(P, {"bids": [[t, t]], "asks": [[t, t]], "lastUpdateId": 1, "microtimestamp": "1", "timestamp": "1"})
            e = getattr(book, side)[0]
            return e.price if k == 0 else e.volume
        return f
    fields = {
        "binance.Balance.available": lambda t: bc.Balance({"free": t, "locked": "0"}).available,
        "binance.Balance.locked": lambda t: bc.Balance({"free": "0", "locked": t}).locked,
        "binance.Balance.total": lambda t: bc.Balance({"free": t, "locked": "0"}).total,
        "binance.Trade.price": lambda t: bc.Trade({"price": t}).price,
        "binance.Trade.amount": lambda t: bc.Trade({"qty": t}).amount,
        "binance.Trade.quote_amount": lambda t: bc.Trade({"quoteQty": t}).quote_amount,
        "binance.Trade.commission": lambda t: bc.Trade({"commission": t}).commission,
        "binance.OpenOrder.amount": lambda t: bc.OpenOrder({"origQty": t}).amount,
        "binance.OpenOrder.amount_filled": lambda t: bc.OpenOrder({"executedQty": t}).amount_filled,
        "binance.OpenOrder.quote_amount_filled": lambda t: bc.OpenOrder({"cummulativeQuoteQty": t}).quote_amount_filled,
        "binance.OpenOrder.limit_price": lambda t: bc.OpenOrder({"price": t}).limit_price,
        "binance.OpenOrder.stop_price": lambda t: bc.OpenOrder({"stopPrice": t}).stop_price,
        "binance.CanceledOrder.amount": lambda t: bc.CanceledOrder({"origQty": t}).amount,
        "binance.OrderInfo.amount": lambda t: bc.OrderInfo({"origQty": t}, []).amount,
        "binance.OrderInfo.amount_remaining": lambda t: bc.OrderInfo({"origQty": t, "executedQty": "0"}, []).amount_remaining,
        "binance.OrderInfo.limit_price": lambda t: bc.OrderInfo({"price": t}, []).limit_price,
        "binance.Fill.price": lambda t: bc.Fill({"price": t}).price,
        "binance.Fill.amount": lambda t: bc.Fill({"qty": t}).amount,
        "binance.Fill.commission": lambda t: bc.Fill({"commission": t}).commission,
        "binance.CreatedOrder.limit_price": lambda t: bc.CreatedOrder({"price": t}).limit_price,
        "binance.CreatedOrder.amount": lambda t: bc.CreatedOrder({"origQty": t}).amount,
        "binance.CreatedOrder.amount_filled": lambda t: bc.CreatedOrder({"executedQty": t}).amount_filled,
        "binance.CreatedOrder.quote_amount_filled": lambda t: bc.CreatedOrder({"cummulativeQuoteQty": t}).quote_amount_filled,
        "binance.OrderUpdate.amount": lambda t: bud.OrderUpdate({"e": "executionReport", "q": t}).amount,
        "binance.OrderUpdate.quote_amount": lambda t: bud.OrderUpdate({"e": "executionReport", "Q": t}).quote_amount,
        "binance.OrderUpdate.limit_price": lambda t: bud.OrderUpdate({"e": "executionReport", "p": t}).limit_price,
        "binance.OrderUpdate.stop_price": lambda t: bud.OrderUpdate({"e": "executionReport", "P": t}).stop_price,
        "binance.OrderUpdate.amount_filled": lambda t: bud.OrderUpdate({"e": "executionReport", "z": t}).amount_filled,
        "binance.OrderUpdate.quote_amount_filled": lambda t: bud.OrderUpdate({"e": "executionReport", "Z": t}).quote_amount_filled,
        "binance.OrderUpdate.fees": lambda t: bud.OrderUpdate({"e": "executionReport", "N": "BNB", "n": t}).fees["BNB"],
        "binance.ws.Trade.price": lambda t: btr.Trade(P, {"e": "trade", "p": t}).price,
        "binance.ws.Trade.amount": lambda t: btr.Trade(P, {"e": "trade", "q": t}).amount,
        "binance.kline.open": lambda t: bkl.Bar(P, {"t": 0, "o": t, "h": t, "l": t, "c": t, "v": "1"}).open,
        "binance.kline.high": lambda t: bkl.Bar(P, {"t": 0, "o": t, "h": t, "l": t, "c": t, "v": "1"}).high,
        "binance.kline.low": lambda t: bkl.Bar(P, {"t": 0, "o": t, "h": t, "l": t, "c": t, "v": "1"}).low,
        "binance.kline.close": lambda t: bkl.Bar(P, {"t": 0, "o": t, "h": t, "l": t, "c": t, "v": "1"}).close,
        "binance.kline.volume": lambda t: bkl.Bar(P, {"t": 0, "o": "1", "h": "1", "l": "1", "c": "1", "v": t}).volume,
        "binance.OrderBook.bid.price": ob_first(bob.OrderBook, "bids", 0), "binance.OrderBook.bid.volume": ob_first(bob.OrderBook, "bids", 1),
        "binance.OrderBook.ask.price": ob_first(bob.OrderBook, "asks", 0), "binance.OrderBook.ask.volume": ob_first(bob.OrderBook, "asks", 1),
        "bitstamp.OpenOrder.limit_price": lambda t: sx.OpenOrder({"price": t}).limit_price,
        "bitstamp.OpenOrder.amount": lambda t: sx.OpenOrder({"amount_at_create": t}).amount,
        "bitstamp.Transaction.price": lambda t: sx.OrderStatusTransaction({"price": t}).price,
        "bitstamp.Transaction.fee": lambda t: sx.OrderStatusTransaction({"fee": t}).fee,
        "bitstamp.Transaction.dynamic": lambda t: sx.OrderStatusTransaction({"usdt": t}).usdt,
        "bitstamp.OrderStatus.amount_remaining": lambda t: sx.OrderStatus({"amount_remaining": t}).amount_remaining,
        "bitstamp.Balance.available": lambda t: sx.Balance({"available": t}).available,
        "bitstamp.Balance.total": lambda t: sx.Balance({"total": t}).total,
        "bitstamp.Balance.reserved": lambda t: sx.Balance({"reserved": t}).reserved,
        "bitstamp.CanceledOrder.amount": lambda t: sx.CanceledOrder({"amount": t}).amount,
        "bitstamp.CanceledOrder.limit_price": lambda t: sx.CanceledOrder({"price": t}).limit_price,
        "bitstamp.CreatedOrder.price": lambda t: sx.CreatedOrder({"price": t}).price,
        "bitstamp.CreatedOrder.amount": lambda t: sx.CreatedOrder({"amount": t}).amount,
        "bitstamp.ws.Order.amount": lambda t: so.Order(P, {"amount_at_create": t}).amount,
        "bitstamp.ws.Order.price": lambda t: so.Order(P, {"price_str": t, "price": 0}).price,
        "bitstamp.ws.Trade.amount": lambda t: st.Trade(P, {"amount_str": t, "amount": 0}).amount,
        "bitstamp.ws.Trade.price": lambda t: st.Trade(P, {"price_str": t, "price": 0}).price,
        "bitstamp.OrderBook.bid.price": ob_first(sob.OrderBook, "bids", 0), "bitstamp.OrderBook.bid.volume": ob_first(sob.OrderBook, "bids", 1),
        "bitstamp.OrderBook.ask.price": ob_first(sob.OrderBook, "asks", 0), "bitstamp.OrderBook.ask.volume": ob_first(sob.OrderBook, "asks", 1),
    }
    for label, fn in fields.items():
        for _ in range(3 if quick else 40):
            d = Decimal(rng.randint(1, 10**6)).scaleb(rng.randint(-12, 6))
            txt = rng.choice([format(d, "f"), format(d, "f") + "0", "0" + format(d, "f") if d < 1 else format(d, "f"), str(d)])
            try:
                gc, ge = norm(Decimal(fn(txt)))
                err = ""
            except Exception as e:  # noqa: BLE001
                gc, ge, err = -1, 0, f"{type(e).__name__}: {e}"[:200]
            c, e = norm(Decimal(txt))
            recs.append({"kind": "payload_decimal", "coef": c, "exp": e, "got_coef": gc, "got_exp": ge, "text": txt, "label": label, "err": err})

    # totals accumulated over several payload entries: small coefficients so that the sums stay inside TLC's integers
    def small():
        return Decimal(rng.randint(1, 9999)).scaleb(rng.choice([-8, -7, -6, -5]))

    def total_rec(label, addends, got):
        try:
            gc, ge = norm(Decimal(got)) if got is not None else (0, 0)
        except Exception:  # noqa: BLE001
            gc, ge = -1, 0
        return {"kind": "payload_sum", "label": label, "addends": [list(norm(a)) for a in addends], "got_coef": gc, "got_exp": ge,
                "text": " + ".join(format(a, "f") for a in addends)}
    for i in range(40 if quick else 1500):
        n = rng.randint(1, 4)
        # Binance: commissions of the trades of one order, per commission asset (zero commissions are legal)
        assets = [rng.choice(["BNB", "USDT", "BTC"][:rng.choice([1, 2, 3])]) for _ in range(n)]
        comm = [small() if rng.random() < 0.85 else Decimal(0) for _ in range(n)]
        trades = [bc.Trade({"commission": format(c, "f"), "commissionAsset": a, "price": "1", "qty": "1", "quoteQty": "1"})
                  for a, c in zip(assets, comm)]
        try:
            fees = dict(bc.OrderInfo({"origQty": "1", "executedQty": "1", "cummulativeQuoteQty": "1"}, trades).fees)
        except Exception:  # noqa: BLE001
            fees = None
        for a in sorted(set(assets)):
            adds = [c for x, c in zip(assets, comm) if x == a]
            got = None if fees is None else fees.get(a, Decimal(0))
            recs.append(total_rec(f"binance.OrderInfo.fees[{len(adds)} trades]", adds, got if fees is not None else "NaN"))
        if fees is not None:
            extra = sorted(a for a, v in fees.items() if a not in assets and v)
            if extra:
                recs.append(total_rec("binance.OrderInfo.fees[unexpected asset]", [], fees[extra[0]]))
        # Bitstamp: fee, base and quote amounts of the transactions of one order
        tx = [{"tid": k, "price": "1", "fee": format(small() if rng.random() < 0.85 else Decimal(0), "f"),
               "btc": format(small(), "f"), "usd": format(small(), "f"), "type": 2} for k in range(n)]
        try:
            oi = sx.OrderInfo(P, sx.OrderStatus({"id": 1, "status": "Finished", "amount_remaining": "0", "transactions": tx}))
            got = {"fees": oi.fees.get("USD", Decimal(0)), "amount_filled": oi.amount_filled, "quote_amount_filled": oi.quote_amount_filled}
        except Exception:  # noqa: BLE001
            got = {"fees": "NaN", "amount_filled": "NaN", "quote_amount_filled": "NaN"}
        recs.append(total_rec(f"bitstamp.OrderInfo.fees[{n} tx]", [Decimal(t["fee"]) for t in tx], got["fees"]))
        recs.append(total_rec(f"bitstamp.OrderInfo.amount_filled[{n} tx]", [Decimal(t["btc"]) for t in tx], got["amount_filled"]))
        recs.append(total_rec(f"bitstamp.OrderInfo.quote_amount_filled[{n} tx]", [Decimal(t["usd"]) for t in tx], got["quote_amount_filled"]))
    # millisecond timestamps through every wrapper that carries one
    epoch = datetime.datetime(1970, 1, 1, tzinfo=datetime.timezone.utc)
    stamps = {
        "binance.Trade.datetime": lambda ms: bc.Trade({"time": ms}).datetime,
        "binance.CreatedOrder.datetime": lambda ms: bc.CreatedOrder({"transactTime": ms}).datetime,
        "binance.OpenOrder.datetime": lambda ms: bc.OpenOrder({"time": ms}).datetime,
        "binance.OCO.datetime": lambda ms: bc.CreatedOCOOrder({"transactionTime": ms}).datetime,
        "binance.ws.Trade.datetime": lambda ms: btr.Trade(P, {"e": "trade", "T": ms}).datetime,
        "binance.ws.Trade.datetime(str)": lambda ms: btr.Trade(P, {"e": "trade", "T": str(ms)}).datetime,
        "binance.kline.datetime": lambda ms: bkl.Bar(P, {"t": ms, "o": "1", "h": "1", "l": "1", "c": "1", "v": "1"}).datetime,
    }
    for label, fn in stamps.items():
        for _ in range(5 if quick else 200):
            days = rng.randint(14610, 47480)
            sec = rng.choice([0, 86399, rng.randint(0, 86399)])
            ms = rng.choice([0, 999, 1, 500, rng.randint(0, 999)])
            raw = (days * 86400 + sec) * 1000 + ms
            try:
                d = fn(raw)
                delta = d - epoch
                gd, gs, gu, utc = delta.days, delta.seconds, delta.microseconds, d.utcoffset() == datetime.timedelta(0)
            except Exception:  # noqa: BLE001
                gd, gs, gu, utc = -1, -1, -1, False
            recs.append({"kind": "timestamp", "unit": "ms", "days": days, "sec": sec, "frac": ms, "got_days": gd, "got_sec": gs,
                         "got_usec": gu, "got_utc": bool(utc), "raw": str(raw), "label": label})
    return recs


# ------------------------------------------------------------------ the checks --------------------------------------
def judge(rep, prop, recs, wd):
    for i, r in enumerate(recs, start=1):
        r["id"] = i
    slim = [{k: v for k, v in r.items() if k not in ("case", "params", "value", "raw")} for r in recs]
    from .eng_dispatcher import tlc_batches
    verd, results = tlc_batches("ApiTrace", slim, wd, "AllConsumed", min(tlc.NCPU, max(1, len(slim) // 200)))
    agg = results[0]
    agg.distinct, agg.generated = sum(r.distinct for r in results), sum(r.generated for r in results)
    rep.add_tlc("ApiTrace/TRACE", agg, None, f"{len(slim)} records (requests received by the loopback server / decoded payloads)")
    for r in recs:
        v = verd.get(r["id"])
        if v is None:
            raise tlc.MachineryError(f"no verdict for record {r['id']}")
        rep.traces += 1
        rep.steps += 1
        rep.distinct(json.dumps({k: r.get(k) for k in ("kind", "label", "entry", "text", "raw_qs", "body", "status", "unit", "days", "sec", "frac")}, sort_keys=True, default=str))
        mine = sorted(c for c in v["failing"] if PROP_OF.get(c) == prop)
        if mine:
            where = r.get("label") or r.get("entry") or r.get("exchange") or r["kind"]
            rep.violation(Violation(prop, mine[0], "trace", {"failing": sorted(v["failing"]), "record": {k: (v2 if k != "case" else None) for k, v2 in r.items()}},
                                    script={"kind": "api", "record": {k: v2 for k, v2 in r.items() if k != "case"}, "case": r.get("case")},
                                    discriminator=f"{mine[0]}/{where}"))
        elif set(v["failing"]) & DRIFT:
            rep.drift.append({"clause": "C17_ExactText", "entry": r.get("entry"), "value": r.get("value"), "text": r.get("text")})


def check(rep: Report, tier: str, seed: int, prop: str = None):
    prop = prop or rep.prop
    rng = random.Random(seed * 2654435761 % 2**31 + (16 if prop == "C16" else 17))
    quick = tier == "quick"
    loop = asyncio.new_event_loop()
    try:
        with tlc.scratch() as wd:
            if prop == "C16":
                from . import sig_impl
                rows = loop.run_until_complete(measure_tables())
                table = classes_of(rows)
                rep.extra["measured_class_table"] = [{k: t[k] for k in ("cls", "atoms", "detail")} for t in table]
                # does the client transmit the query string it signed, or let the HTTP library re-encode it?
                probe = loop.run_until_complete(sig_impl.run_batch([{"exchange": "binance", "cid": "a:b", "amount": "1", "price": "1",
                                                                     "only": ["spot.query_order"]}]))
                pre = "a%3Ab" in probe[0]["raw_qs"]
                import os
                import shutil
                specdir = os.path.join(wd, "specs")
                shutil.copytree(tlc.SPECS, specdir)
                tt = "{" + ", ".join(f'[cls |-> "{t["cls"]}", sign |-> "{t["sign"]}", query |-> "{t["query"]}", body |-> "{t["body"]}"]' for t in table) + "}"
                with open(os.path.join(specdir, "Signing_MC.tla"), "w") as f:
                    f.write(f"---- MODULE Signing_MC ----\nEXTENDS Signing\nMC_Table == {tt}\nMC_Endpoints == {endpoints_tla()}\nBoundNonce == nonce <= 2 /\\ clock <= 4 /\\ received <= 3\n====\n")
                def sign_cfg(resend, maxlen):
                    return tlc.cfg_text({"ClassTable": tlc.Subst("MC_Table"), "Endpoints": tlc.Subst("MC_Endpoints"), "MaxLen": maxlen,
                                         "PreEncodedQuery": pre, "MaxWait": 2, "Tol": 1, "Resend": resend},
                                        invariants=["Inv_C16_ServerAccepts", "Inv_C16_Fresh", "Inv_C16_NonceUnique"],
                                        constraints=["BoundNonce"])
                cfg = sign_cfg("none", 2 if quick else 3)
                with open(os.path.join(specdir, "Signing_MC.tla")) as f:
                    pass
                res = tlc.run("Signing_MC", cfg, workdir=wd, timeout=1500)
                rep.add_tlc("Signing/MC", res, {"classes": len(table), "MaxLen": 2 if quick else 3, "PreEncodedQuery": pre},
                            "every endpoint placement x every value of class strings; class table measured from urlencode / aiohttp")
                model_rejects = not res.ok
                # a lost connection: re-signing the request is a design the exchange accepts, transmitting the same headers
                # again is not (must fail)
                res2 = tlc.run("Signing_MC", sign_cfg("resign", 1 if quick else 2), workdir=wd, timeout=1500)
                rep.add_tlc("Signing/MC", res2, {"classes": len(table), "Resend": "resign"}, "connection lost after the exchange received the request; the request is stamped and signed again")
                model_rejects = model_rejects or not res2.ok
                res3 = tlc.run("Signing_MC", sign_cfg("reuse", 1), workdir=wd, timeout=1500, dump_trace=False)
                if res3.ok:
                    raise tlc.MachineryError("must-fail config (a lost request is transmitted again with the same nonce) was accepted")
                rep.extra["must_fail"] = {"Resend": "reuse", "violated": res3.violated}
                # every value shape, concretised, through every authenticated entry point of the real clients
                reps = [t["atoms"][0] for t in table] + [t["atoms"][-1] for t in table]
                values = set(reps)
                for a, b in itertools.product(reps, repeat=2):
                    values.add(a + b)
                values |= {"a:b/c d+e~f", "x%41y", "%", "id-_.~", "ünï", "A" * 36}
                values = sorted(values)
                if quick:
                    values = rng.sample(values, 25) + ["a:b/c d+e~f", "x%41y"]
                alphabet = "abcdefghijklmnopqrstuvwxyzABCDEFGHIJKLMNOPQRSTUVWXYZ0123456789.:/_-"
                for _ in range(10 if quick else 300):
                    values.append("".join(rng.choice(alphabet) for _ in range(rng.randint(1, 36))))
                cases = []
                for v in values:
                    for ex in ("binance", "bitstamp"):
                        cases.append({"exchange": ex, "cid": v, "amount": str(Decimal(rng.randint(1, 10**6)).scaleb(rng.randint(-8, 2))),
                                      "price": str(Decimal(rng.randint(1, 10**6)).scaleb(rng.randint(-8, 2))),
                                      "extra": rng.choice([{}, {}, {"selfTradePreventionMode": "EXPIRE_TAKER"}, {"note": v},
                                                           {"limit_price": Decimal("3.1E+4")}, {"trailingDelta": Decimal("8.5E-7")},
                                                           {"icebergQty": Decimal(rng.randint(1, 999)).scaleb(rng.randint(-9, 4))}])})
                for c in cases:
                    if c["exchange"] == "bitstamp" and "selfTradePreventionMode" in c["extra"]:
                        c["extra"] = {}
                    c["extra"] = dict(c["extra"])
                cases.append({"exchange": "binance", "cid": "fresh", "amount": "1", "price": "1", "throttle": True,
                              "only": ["spot.account", "spot.query_order", "spot.account"]})
                cases.append({"exchange": "bitstamp", "cid": "fresh", "amount": "1", "price": "1", "throttle": True,
                              "only": ["bts.balances", "bts.order_status"]})
                # the connection goes away after the exchange received the request (once per entry point): whatever is
                # transmitted next must be signed afresh
                for ex in ("binance", "bitstamp"):
                    cases.append({"exchange": ex, "cid": "lost-" + ex, "amount": "2", "price": "3", "drop": 1, "extra": {}})
                # concurrent requests (asyncio.gather) of every entry point: nonces stay unique, signatures valid
                for ex in ("binance", "bitstamp"):
                    cases.append({"exchange": ex, "cid": "burst-" + ex, "amount": "2", "price": "3", "burst": 8, "extra": {}})
                recs = loop.run_until_complete(sig_impl.run_batch(cases))
                seen = set()
                for r in recs:
                    r["kind"] = "request"
                    r["tol_ms"] = 2        # logical clock (sig_impl.LogicalClock): stamped when sent = read when received
                    r["nonce_repeated"] = bool(r["nonce"]) and r["nonce"] in seen
                    if r["nonce"]:
                        seen.add(r["nonce"])
                    if r["err"] and not r["method"]:
                        r["signed"], r["sig_ok"] = True, False        # the request never reached the exchange
                    # a listen-key style endpoint only carries the key
                    r["signed"] = bool(r["signed"]) or (r["exchange"] == "binance" and not r["label"].endswith(("listen_key", "keep_alive")))
                judge(rep, "C16", recs, wd)
                if model_rejects and not rep.violations:
                    raise tlc.MachineryError(f"the model rejects ({res.violated}) what the loopback server accepts: the class table or "
                                             "the model is wrong")
                rep.sample({"leg": "trace", "request": {k: recs[1][k] for k in ("label", "method", "path", "raw_qs", "body", "sig_ok", "key_ok")}})
            else:
                grid = decimal_grid(rng, quick)
                extra = [Decimal(rng.randint(1, 10**9)).scaleb(rng.randint(-12, 3)) for _ in range(10 if quick else 400)]
                extra = [d for d in extra if Decimal("1e-12") <= d <= Decimal("1e12")]
                recs = loop.run_until_complete(run_routes_and_decimals(grid, extra))
                recs += decode_records(rng, quick)
                judge(rep, "C17", recs, wd)
                rep.states = max(rep.states, len(grid))
                rep.sample({"leg": "trace", "record": {k: v for k, v in recs[0].items() if k != "case"}})
                rep.extra["grid"] = {"coefficients": [1, 10, 85, 100, 123, 1050], "exponents": "-14..14 within 1e-12..1e12", "points": len(grid)}
            rep.exhaustive = not quick
    finally:
        loop.close()
    rep.assumptions += [
        "a loopback aiohttp server on 127.0.0.1 stands for the exchange; it verifies HMAC-SHA256 over the raw request target and body",
        "C16: characters inside one measured class behave alike beyond the pairs that were concretised",
        "C17: decimals are compared after normalisation (coefficient, exponent); the status alphabets are the ones listed in WireFormat.tla",
    ]
    rep.extra["rule"] = "one record per request received by the loopback server / per decoded payload; distinct by content"


def replay(script: dict) -> int:
    print(json.dumps(script, default=str)[:3000])
    return 0
