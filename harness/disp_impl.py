"""Runs a dispatcher configuration (record D of BtDispatcherCore.tla) on the real BacktestingDispatcher.

Sources are FifoQueueEventSource subclasses; handlers / jobs are coroutines built from the configuration's handler
programs (segments separated by suspension points; effects: push to a derived source, schedule a job, raise, stop,
submit an order / match a bar on an abstract exchange).  Every executed segment is logged with dispatcher.now().
"""
from __future__ import annotations

import asyncio
import datetime
import logging
import random
from typing import Any, Dict, List

UTC = datetime.timezone.utc
T0 = datetime.datetime(2001, 1, 1, tzinfo=UTC)
TICK = datetime.timedelta(hours=1)


def T(i: int) -> datetime.datetime:
    return T0 + i * TICK


def tick(d: datetime.datetime) -> int:
    return (d - T0) // TICK


async def run_bt_async(D: dict, suspend: str = "sleep0", seed: int = 0, dup_subscriptions: bool = True) -> dict:
    import basana as bs
    from basana.core import event as bsevent

    logging.disable(logging.CRITICAL)
    rng = random.Random(seed)
    # one model tick is an hour, 100 ms (several ticks inside one UTC second: the scheduler must order jobs by the full
    # datetime, not by whole seconds) or 1 microsecond (the finest datetime resolution); a separate stream keeps `rng` as it was
    global TICK
    TICK = datetime.timedelta(microseconds=D["tick_us"]) if "tick_us" in D else random.Random(seed * 7919 + 13).choice(
        [datetime.timedelta(hours=1), datetime.timedelta(hours=1), datetime.timedelta(milliseconds=100), datetime.timedelta(microseconds=1)])
    d = bs.backtesting_dispatcher(max_concurrent=D["maxc"])
    d.stop_on_handler_exceptions = bool(D.get("stopOnErr"))
    log: List[dict] = []
    orders: List[dict] = []
    state = {"next_id": 1000, "njobs": len(D["jobs"]) + 1, "pending": [], "running": True, "stop_requested": False}
    events: List[dict] = []
    sched: List[dict] = [{"id": k, "when": j["when"], "at": 0, "late": False} for k, j in enumerate(D["jobs"], start=1)]

    class Ev(bsevent.Event):
        def __init__(self, when, vid, src):
            super().__init__(when)
            self.vid, self.src = vid, src

    zones = [UTC, datetime.timezone(datetime.timedelta(hours=-5)), datetime.timezone(datetime.timedelta(hours=2)),
             datetime.timezone(datetime.timedelta(hours=5, minutes=30))]

    def Z(when: datetime.datetime) -> datetime.datetime:
        """The same instant expressed in some other UTC offset (applications pass aware datetimes of any zone)."""
        return when.astimezone(rng.choice(zones)) if D.get("zones", True) else when

    sources = []
    for s in range(1, D["ns"] + 1):
        evs = [Ev(Z(T(t)), 100 * s + k, s) for k, t in enumerate(D["evs"][s - 1], start=1)]
        events.extend({"id": e.vid, "src": s, "when": tick(e.when)} for e in evs)
        if evs and rng.random() < 0.25:
            # the source is fed by its producer: main() pushes the events when the run starts (a replaying producer)
            class Feeder(bsevent.Producer):
                def __init__(self, items):
                    self.items, self.src = items, None

                async def main(self):
                    for e in self.items:
                        self.src.push(e)
            fd = Feeder(list(evs))
            src = bsevent.FifoQueueEventSource(producer=fd)
            fd.src = src
            sources.append(src)
            continue
        sources.append(bsevent.FifoQueueEventSource(events=evs))
        if evs and rng.random() < 0.3:
            evs.clear()          # the caller's list is the caller's: reusing / emptying it afterwards must not affect the source

    def now_tick():
        try:
            return tick(d.now())
        except Exception:
            return 0

    async def suspend_point():
        if suspend == "sleep0":
            await asyncio.sleep(0)
        else:
            fut = asyncio.get_running_loop().create_future()
            state["pending"].append(fut)
            await fut

    def apply(effs):
        for e in effs:
            op = e["op"]
            if op == "push":
                sources[e["src"] - 1].push(Ev(d.now(), state["next_id"], e["src"]))
                events.append({"id": state["next_id"], "src": e["src"], "when": now_tick()})
                state["next_id"] += 1
            elif op == "sched":
                jid = state["njobs"]
                state["njobs"] += 1
                when = d.now() + e["delta"] * TICK
                sched.append({"id": jid, "when": tick(when), "at": len(log), "late": tick(when) < now_tick()})
                d.schedule(Z(when), make_job(e["prog"], tick(when), jid))
            elif op == "raise":
                if D.get("stopOnErr"):
                    state["stop_requested"] = True
                raise RuntimeError("scripted handler failure")
            elif op == "stop":
                state["stop_requested"] = True
                d.stop()
            elif op == "order":
                orders.append({"pair": e["pair"], "at": now_tick(), "filledAt": 0})
            elif op == "match":
                for o in orders:
                    if o["pair"] == e["pair"] and o["filledAt"] == 0:
                        o["filledAt"] = now_tick()

    def make_handler(hid: int, stage: int):
        prog = D["prog"][hid - 1]

        async def handler(event):
            for k, effs in enumerate(prog, start=1):
                if k > 1:
                    await suspend_point()
                log.append({"kind": "ev", "ev": event.vid, "job": 0, "src": event.src, "when": tick(event.when), "h": hid,
                            "stage": stage, "seg": k, "clock": now_tick()})
                apply(effs)
        handler.__name__ = f"h{hid}"

        def sync_first(event):
            # a plain callable returning an awaitable: the first segment runs (and may raise) when the handler is CALLED
            def entry(k):
                return {"kind": "ev", "ev": event.vid, "job": 0, "src": event.src, "when": tick(event.when), "h": hid,
                        "stage": stage, "seg": k, "clock": now_tick()}
            if prog:
                log.append(entry(1))
                apply(prog[0])

            async def rest():
                for k, effs in enumerate(prog[1:], start=2):
                    await suspend_point()
                    log.append(entry(k))
                    apply(effs)
            return rest()
        handler.sync_first = sync_first
        return handler

    def make_job(pid: int, when: int, jid: int):
        prog = D["prog"][pid - 1]

        async def job():
            for k, effs in enumerate(prog, start=1):
                if k > 1:
                    await suspend_point()
                log.append({"kind": "job", "ev": 0, "src": 0, "when": when, "h": pid, "stage": 2, "seg": k,
                            "clock": now_tick(), "job": jid})
                apply(effs)

        # jobs are "callables returning an awaitable": besides coroutine functions, plain functions / lambdas / partials
        # that do their first segment when CALLED (and may raise there) and return the rest as a coroutine
        kind = rng.choice(["async", "async", "factory", "sync_first"])
        if kind == "async":
            return job
        if kind == "factory":
            return lambda: job()

        def job_sync_first():
            log.append({"kind": "job", "ev": 0, "src": 0, "when": when, "h": pid, "stage": 2, "seg": 1,
                        "clock": now_tick(), "job": jid})
            apply(prog[0])

            async def rest():
                for k, effs in enumerate(prog[1:], start=2):
                    await suspend_point()
                    log.append({"kind": "job", "ev": 0, "src": 0, "when": when, "h": pid, "stage": 2, "seg": k,
                                "clock": now_tick(), "job": jid})
                    apply(effs)
            return rest()
        return job_sync_first if prog else job

    import functools

    class Strategy:
        """Handlers are bound methods, callable objects or functools.partial objects, as in applications: every attribute
        access yields a new, equal method object; partials and callable objects have no __name__ / __qualname__."""
        def __init__(self, fn):
            self._fn = fn
            kind = rng.choice(["method", "method", "callable", "partial", "sync_first", "future", "awaitable"])
            if kind == "future":
                # a plain callable returning a Future (asyncio.ensure_future / gather / shield): an awaitable, not a coroutine
                # (its first segment runs when it is called -- "started in subscription order" is about the calls -- the
                # rest is the Future it returns)
                self.on_event = (lambda event: asyncio.ensure_future(fn.sync_first(event))) if hasattr(fn, "sync_first") \
                    else (lambda event: asyncio.ensure_future(fn(event)))
            elif kind == "awaitable":
                class Awaitable_:
                    def __init__(self, event):
                        self.event = event

                    def __await__(self):
                        return fn(self.event).__await__()
                self.on_event = Awaitable_
            elif kind == "sync_first" and hasattr(fn, "sync_first"):
                self.on_event = fn.sync_first
            elif kind == "callable":
                outer = self

                class CallableHandler:
                    async def __call__(self, event):
                        await outer._fn(event)
                self.on_event = CallableHandler()
            elif kind == "partial":
                async def with_arg(tag, event):
                    await fn(event)
                self.on_event = functools.partial(with_arg, "tag")

        async def on_event(self, event):
            await self._fn(event)
    handlers: Dict[Any, Any] = {}
    for s in range(1, D["ns"] + 1):
        hs = D["hs"][s - 1]
        assert hs, "a source is only known to the dispatcher through a subscription"
        for hid in hs:
            h = handlers.setdefault(("h", hid), Strategy(make_handler(hid, 2)))
            d.subscribe(sources[s - 1], h.on_event)
            if dup_subscriptions and rng.random() < 0.3:
                d.subscribe(sources[s - 1], h.on_event)          # duplicate subscriptions are ignored
    for hid in D["pre"]:
        h = handlers.setdefault(("pre", hid), Strategy(make_handler(hid, 1)))
        d.subscribe_all(h.on_event, front_run=True)
        if dup_subscriptions and rng.random() < 0.3:
            d.subscribe_all(h.on_event, front_run=True)
    for hid in D["post"]:
        h = handlers.setdefault(("post", hid), Strategy(make_handler(hid, 3)))
        d.subscribe_all(h.on_event)
        if dup_subscriptions and rng.random() < 0.3:
            d.subscribe_all(h.on_event)
    for k, j in enumerate(D["jobs"], start=1):
        d.schedule(Z(T(j["when"])), make_job(j["prog"], j["when"], k))

    async def releaser():
        # resolves pending suspension futures one at a time in a seeded random order
        while state["running"]:
            if state["pending"]:
                i = rng.randrange(len(state["pending"]))
                fut = state["pending"].pop(i)
                if not fut.done():
                    fut.set_result(None)
            await asyncio.sleep(0)

    rel = asyncio.create_task(releaser()) if suspend != "sleep0" else None
    outcome = "returned"
    try:
        await asyncio.wait_for(d.run(stop_signals=[]), timeout=120)
    except asyncio.TimeoutError:
        outcome = "timeout"
    except BaseException as e:  # noqa: BLE001
        outcome = f"raised:{type(e).__name__}"
    finally:
        state["running"] = False
        if rel is not None:
            rel.cancel()
            try:
                await rel
            except BaseException:  # noqa: BLE001
                pass
        logging.disable(logging.NOTSET)
    leftover = sum(len(s._queue) for s in sources)      # events still inside the sources (harness-owned objects)
    return {"cfg": D, "log": log, "orders": orders, "outcome": outcome, "leftover": leftover, "events": events,
            "sched": sched, "clean": outcome == "returned" and not state["stop_requested"],
            "stopped": bool(d.stopped), "suspend": suspend}


def run_bt(D: dict, suspend: str = "sleep0", seed: int = 0) -> dict:
    loop = asyncio.new_event_loop()
    try:
        return loop.run_until_complete(run_bt_async(D, suspend, seed))
    finally:
        loop.close()
