"""Loopback HTTP server that verifies requests the way the exchanges document it, and drivers that call every
authenticated / order entry point of the real Binance and Bitstamp clients against it.

The server works on the raw bytes it receives (request target and body), independently of the client code:
  Binance : HMAC-SHA256(secret, <raw query string without the trailing &signature=...> + <raw body>) == signature,
            X-MBX-APIKEY present
  Bitstamp: HMAC-SHA256(secret, "BITSTAMP <key>" + METHOD + host + path + query + content-type + nonce + timestamp
            + "v2" + body) == X-Auth-Signature
"""
from __future__ import annotations

import asyncio
import hashlib
import hmac
import time
from decimal import Decimal
from typing import Any, Dict, List
from urllib.parse import parse_qsl

from aiohttp import web

KEY, SECRET = "the-api-key", "the-api-secret"


class LogicalClock:
    """The clock both clients stamp their requests with and the exchange reads when it receives them.  It only moves when the
    (stub) rate limiter makes a caller wait, so freshness is judged without any dependence on real scheduling delays."""
    now = 1790000000.0

    def time(self):
        return self.now


CLOCK = LogicalClock()


class WaitingLimiter:
    """Stands for a token bucket that makes every caller wait `wait_s`: consume() lets that time pass on the logical clock
    and reports that nothing is left to wait.  A request must be stamped AFTER this call."""
    def __init__(self, wait_s: float):
        self.wait_s = wait_s

    def consume(self) -> float:
        CLOCK.now += self.wait_s
        return 0.0


class Loopback:
    def __init__(self):
        self.records: List[dict] = []
        self.runner = None
        self.port = None
        self.drop_next = 0          # connection faults to inject: the next n requests are received, then the connection is closed

    async def start(self):
        app = web.Application()
        app.router.add_route("*", "/{tail:.*}", self.handle)
        self.runner = web.AppRunner(app)
        await self.runner.setup()
        site = web.TCPSite(self.runner, "127.0.0.1", 0)
        await site.start()
        self.port = site._server.sockets[0].getsockname()[1]

    async def stop(self):
        await self.runner.cleanup()

    async def handle(self, request: web.Request):
        recv = CLOCK.time()
        body = await request.read()
        raw_qs = request.raw_path.split("?", 1)[1] if "?" in request.raw_path else ""
        path = request.raw_path.split("?", 1)[0]
        rec: Dict[str, Any] = {"method": request.method, "path": path, "raw_qs": raw_qs, "body": body.decode("latin-1"),
                               "recv_ms": int(recv * 1000)}
        if path.startswith("/api/v2/"):                   # Bitstamp
            h = request.headers
            ct = h.get("Content-Type", "")
            msg = (h.get("X-Auth", "") + request.method + request.host.split(":")[0] + path + raw_qs + ct +
                   h.get("X-Auth-Nonce", "") + h.get("X-Auth-Timestamp", "") + h.get("X-Auth-Version", ""))
            expect = hmac.new(SECRET.encode(), msg.encode() + body, hashlib.sha256).hexdigest()
            rec.update(exchange="bitstamp", signed=("X-Auth-Signature" in h), key_ok=h.get("X-Auth", "") == f"BITSTAMP {KEY}",
                       sig_ok=hmac.compare_digest(expect, h.get("X-Auth-Signature", "").lower()),
                       nonce=h.get("X-Auth-Nonce", ""), ts_ms=int(h.get("X-Auth-Timestamp", "0") or 0),
                       version=h.get("X-Auth-Version", ""), content_type=ct)
        else:                                              # Binance
            signed = "signature=" in raw_qs
            sig, payload = "", raw_qs
            if signed:
                payload, _, sig = raw_qs.rpartition("&signature=") if "&signature=" in raw_qs else ("", "", raw_qs[len("signature="):])
            expect = hmac.new(SECRET.encode(), payload.encode() + body, hashlib.sha256).hexdigest()
            params = dict(parse_qsl(raw_qs, keep_blank_values=True))
            rec.update(exchange="binance", signed=signed, key_ok=request.headers.get("X-MBX-APIKEY") == KEY,
                       sig_ok=bool(signed) and hmac.compare_digest(expect, sig), nonce="",
                       ts_ms=int(params.get("timestamp", "0") or 0), version="", content_type=request.headers.get("Content-Type", ""))
        rec["params"] = dict(parse_qsl(raw_qs, keep_blank_values=True)) | dict(parse_qsl(body.decode("utf-8", "replace"), keep_blank_values=True))
        self.records.append(rec)
        rec["dropped"] = False
        if self.drop_next > 0:
            # the exchange received (and will remember) the request, but the connection goes away before any reply
            self.drop_next -= 1
            rec["dropped"] = True
            request.transport.close()
        return web.json_response({"ok": True, "orderId": 1, "listenKey": "k", "token": "t", "user_id": 1, "id": "1"})


def binance_calls(cid: str, amount: Decimal, price: Decimal, extra: dict):
    """(label, coroutine factory) for every signed / keyed endpoint of the Binance clients."""
    def calls(api):
        s, c, i = api.spot_account, api.cross_margin_account, api.isolated_margin_account
        out = [
            ("spot.account", lambda: s.get_account_information()),
            ("spot.create_order", lambda: s.create_order("BTCUSDT", "BUY", "LIMIT", time_in_force="GTC", quantity=amount, price=price,
                                                         new_client_order_id=cid, **extra)),
            ("spot.create_order_stop", lambda: s.create_order("BTCUSDT", "SELL", "STOP_LOSS_LIMIT", time_in_force="GTC", quantity=amount,
                                                              price=price, stop_price=price, new_client_order_id=cid)),
            ("spot.create_order_quote", lambda: s.create_order("BTCUSDT", "BUY", "MARKET", quote_order_qty=amount)),
            ("spot.query_order", lambda: s.query_order("BTCUSDT", orig_client_order_id=cid)),
            ("spot.query_order_id", lambda: s.query_order("BTCUSDT", order_id=12345)),
            ("spot.open_orders", lambda: s.get_open_orders("BTCUSDT")),
            ("spot.cancel_order", lambda: s.cancel_order("BTCUSDT", orig_client_order_id=cid)),
            ("spot.trades", lambda: s.get_trades("BTCUSDT", order_id=7)),
            ("spot.create_oco", lambda: s.create_oco("BTCUSDT", "SELL", amount, price, price, stop_limit_price=price,
                                                     stop_limit_time_in_force="GTC", list_client_order_id=cid,
                                                     limit_client_order_id=cid, stop_client_order_id=cid, **extra)),
            ("spot.cancel_oco", lambda: s.cancel_oco_order("BTCUSDT", client_order_list_id=cid)),
            ("spot.query_oco", lambda: s.query_oco_order(client_order_list_id=cid)),
            ("spot.listen_key", lambda: s.create_listen_key()),
            ("spot.keep_alive", lambda: s.keep_alive_listen_key(cid)),
            ("cross.account", lambda: c.get_account_information()),
            ("cross.create_order", lambda: c.create_order("BTCUSDT", "BUY", "LIMIT", time_in_force="GTC", quantity=amount, price=price,
                                                          new_client_order_id=cid, **extra)),
            ("cross.query_order", lambda: c.query_order("BTCUSDT", orig_client_order_id=cid)),
            ("cross.open_orders", lambda: c.get_open_orders("BTCUSDT")),
            ("cross.cancel_order", lambda: c.cancel_order("BTCUSDT", orig_client_order_id=cid)),
            ("cross.trades", lambda: c.get_trades("BTCUSDT")),
            ("cross.create_oco", lambda: c.create_oco("BTCUSDT", "SELL", amount, price, price, stop_limit_price=price,
                                                      stop_limit_time_in_force="GTC", list_client_order_id=cid)),
            ("cross.query_oco", lambda: c.query_oco_order(client_order_list_id=cid)),
            ("cross.cancel_oco", lambda: c.cancel_oco_order("BTCUSDT", client_order_list_id=cid)),
            ("cross.transfer_in", lambda: c.transfer_from_spot_account("USDT", amount)),
            ("cross.transfer_out", lambda: c.transfer_to_spot_account("USDT", amount)),
            ("cross.listen_key", lambda: c.create_listen_key()),
            ("cross.keep_alive", lambda: c.keep_alive_listen_key(cid)),
            ("iso.account", lambda: i.get_account_information()),
            ("iso.create_order", lambda: i.create_order("BTCUSDT", "BUY", "LIMIT", time_in_force="GTC", quantity=amount, price=price,
                                                        new_client_order_id=cid)),
            ("iso.query_order", lambda: i.query_order("BTCUSDT", orig_client_order_id=cid)),
            ("iso.cancel_order", lambda: i.cancel_order("BTCUSDT", orig_client_order_id=cid)),
            ("iso.transfer_in", lambda: i.transfer_from_spot_account("USDT", "BTCUSDT", amount)),
            ("iso.transfer_out", lambda: i.transfer_to_spot_account("USDT", "BTCUSDT", amount)),
            ("iso.listen_key", lambda: i.create_listen_key("BTCUSDT")),
            ("iso.keep_alive", lambda: i.keep_alive_listen_key("BTCUSDT", cid)),
        ]
        return out
    return calls


def bitstamp_calls(cid: str, amount: Decimal, price: Decimal, extra: dict):
    def calls(api):
        return [
            ("bts.ws_token", lambda: api.get_websocket_auth_token()),
            ("bts.balances", lambda: api.get_account_balances()),
            ("bts.balance", lambda: api.get_account_balance("usd")),
            ("bts.open_orders", lambda: api.get_open_orders("btcusd")),
            ("bts.open_orders_all", lambda: api.get_open_orders()),
            ("bts.order_status", lambda: api.get_order_status(client_order_id=cid)),
            ("bts.order_status_id", lambda: api.get_order_status(id=123, omit_transactions=True)),
            ("bts.cancel", lambda: api.cancel_order(123)),
            ("bts.market", lambda: api.create_market_order("buy", "btcusd", amount, client_order_id=cid, **extra)),
            ("bts.limit", lambda: api.create_limit_order("sell", "btcusd", amount, price, client_order_id=cid, **extra)),
            ("bts.instant", lambda: api.create_instant_order("sell", "btcusd", amount, amount_in_counter=True, client_order_id=cid)),
        ]
    return calls


async def run_batch(cases: List[dict], limiter_wait: float = 0.0) -> List[dict]:
    """cases: [{exchange, cid, amount, price, extra}] -> one record per request with the server's verdict."""
    import aiohttp
    from basana.external.binance import client as bcli
    from basana.external.binance.client import base as bcli_base
    from basana.external.bitstamp import client as btcli, helpers as bts_helpers
    saved_clocks = [(bcli_base, bcli_base.time), (bts_helpers, bts_helpers.time)]
    bcli_base.time = bts_helpers.time = CLOCK        # substituted from the harness process; /repo is not changed

    srv = Loopback()
    await srv.start()
    base = f"http://127.0.0.1:{srv.port}/"
    out = []
    try:
        async with aiohttp.ClientSession() as session:
            for case in cases:
                tb = WaitingLimiter(1.25) if case.get("throttle") else None
                amount, price = Decimal(case["amount"]), Decimal(case["price"])
                if case["exchange"] == "binance":
                    api = bcli.APIClient(KEY, SECRET, session=session, tb=tb, config_overrides={"api": {"http": {"base_url": base}}})
                    calls = binance_calls(case["cid"], amount, price, case.get("extra", {}))(api)
                else:
                    api = btcli.APIClient(KEY, SECRET, session=session, tb=tb, config_overrides={"api": {"http": {"base_url": base}}})
                    calls = bitstamp_calls(case["cid"], amount, price, case.get("extra", {}))(api)
                for label, fn in calls:
                    if case.get("only") and label not in case["only"]:
                        continue
                    n0 = len(srv.records)
                    srv.drop_next = int(case.get("drop", 0))
                    t_call = time.time()
                    err = ""
                    try:
                        if case.get("burst"):
                            # several requests of one entry point in flight at once (same millisecond, same process)
                            res = await asyncio.gather(*[fn() for _ in range(int(case["burst"]))], return_exceptions=True)
                            bad = [r for r in res if isinstance(r, BaseException)]
                            if bad:
                                raise bad[0]
                        else:
                            await fn()
                    except Exception as e:  # noqa: BLE001
                        err = f"{type(e).__name__}: {e}"
                    srv.drop_next = 0
                    for rec in srv.records[n0:]:
                        out.append(dict(rec, label=label, case=case, call_ms=int(t_call * 1000), err=err))
                    if len(srv.records) == n0:
                        out.append({"label": label, "case": case, "err": err or "no request received", "exchange": case["exchange"],
                                    "signed": False, "key_ok": False, "sig_ok": False, "nonce": "", "ts_ms": 0, "recv_ms": 0,
                                    "call_ms": int(t_call * 1000), "raw_qs": "", "body": "", "params": {}, "method": "", "path": "",
                                    "version": "", "content_type": "", "dropped": False})
    finally:
        await srv.stop()
        for mod, old in saved_clocks:
            mod.time = old
    return out


def run(cases: List[dict]) -> List[dict]:
    loop = asyncio.new_event_loop()
    try:
        return loop.run_until_complete(run_batch(cases))
    finally:
        loop.close()
