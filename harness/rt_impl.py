"""Runs scenarios on the real RealtimeDispatcher / BacktestingDispatcher under the virtual-time loop.

Two kinds of scenario:
  run_rt(R)        arrival patterns, jobs, idle handlers and handler durations on the RealtimeDispatcher (C15, C14)
  run_life(L)      lifecycle / fault scenarios (producers failing in initialize/main/finalize, stop, cancel, handler
                   errors) on either dispatcher (C14)
All times are integer milliseconds of virtual time since vloop.EPOCH.
"""
from __future__ import annotations

import asyncio
import datetime
import logging
from typing import List

from . import vloop

MS = datetime.timedelta(milliseconds=1)


def at(ms: int) -> datetime.datetime:
    return vloop.EPOCH + ms * MS


def run_rt(R: dict) -> dict:
    import basana as bs
    from basana.core import event as bsevent

    hist: List[dict] = []
    errors: List[str] = []
    out = {"outcome": "returned"}

    class Ev(bsevent.Event):
        def __init__(self, when, vid, src):
            super().__init__(when)
            self.vid, self.src = vid, src

    async def scenario(loop):
        logging.disable(logging.CRITICAL)

        def now_ms():
            return round(loop.time() * 1000)
        d = bs.realtime_dispatcher(max_concurrent=R["maxc"])
        d.on_error = lambda e: errors.append(str(e))
        sources = []

        class Feeder(bsevent.Producer):
            async def main(self):
                for a in sorted(R["arrivals"], key=lambda a: (a["arrive"], a["id"])):
                    await vloop.sleep_until(loop, a["arrive"] / 1000)
                    sources[a["src"] - 1].push(Ev(at(a["when"]), a["id"], a["src"]))
                await asyncio.sleep(10**6)
        feeder = Feeder()
        for s in range(R["ns"]):
            sources.append(bsevent.FifoQueueEventSource(producer=feeder))

        def make_handler(src, hidx, spec):
            async def h(ev):
                hist.append({"e": "enter", "kind": "ev", "id": ev.vid, "src": src, "h": hidx, "when": round((ev.when - vloop.EPOCH) / MS), "t": now_ms()})
                try:
                    if spec["dur"] > 0:
                        await asyncio.sleep(spec["dur"] / 1000)
                    if spec.get("raise"):
                        raise RuntimeError("scripted failure")
                finally:
                    hist.append({"e": "exit", "kind": "ev", "id": ev.vid, "src": src, "h": hidx, "when": round((ev.when - vloop.EPOCH) / MS), "t": now_ms()})
            return h
        for s in range(R["ns"]):
            for hidx, spec in enumerate(R["hs"][s], start=1):
                d.subscribe(sources[s], make_handler(s + 1, hidx, spec))

        def make_job(j):
            async def job():
                hist.append({"e": "enter", "kind": "job", "id": j["id"], "src": 0, "h": 0, "when": j["when"], "t": now_ms()})
                try:
                    if j["dur"] > 0:
                        await asyncio.sleep(j["dur"] / 1000)
                    if j.get("raise"):
                        raise RuntimeError("scripted failure")
                finally:
                    hist.append({"e": "exit", "kind": "job", "id": j["id"], "src": 0, "h": 0, "when": j["when"], "t": now_ms()})
            return job
        for j in R["jobs"]:
            d.schedule(at(j["when"]), make_job(j))
        counter = {"n": 0}

        def make_idle(k, dur):
            async def idle():
                counter["n"] += 1
                n = counter["n"]
                hist.append({"e": "enter", "kind": "idle", "id": n, "src": 0, "h": k, "when": 0, "t": now_ms()})
                try:
                    await asyncio.sleep(dur / 1000)
                finally:
                    hist.append({"e": "exit", "kind": "idle", "id": n, "src": 0, "h": k, "when": 0, "t": now_ms()})
            return idle
        for k, dur in enumerate(R["idle"], start=1):
            d.subscribe_idle(make_idle(k, dur))

        async def stopper():
            await vloop.sleep_until(loop, R["stop_at"] / 1000)
            d.stop()
        st = asyncio.create_task(stopper())
        try:
            await asyncio.wait_for(d.run(stop_signals=[]), timeout=R["stop_at"] / 1000 + 60)
        except asyncio.TimeoutError:
            out["outcome"] = "timeout"
        except BaseException as e:  # noqa: BLE001
            out["outcome"] = f"raised:{type(e).__name__}"
        st.cancel()
        logging.disable(logging.NOTSET)
    vloop.run(scenario)
    return {"kind": "rt", "cfg": R, "hist": hist, "nerrors": sum(1 for e in errors if "out of order" in e),
            "outcome": out["outcome"]}


def run_life(L: dict) -> dict:
    """L: {disp: 'bt'|'rt', producers: [{init, main, fin}], exit: ..., maxc, handler_ms}
       init/fin in {'ok','raise'}; main in {'return','raise','forever'}
       exit in {'exhausted','stop_handler','handler_error_stop','handler_error_continue','external_cancel','external_stop'}"""
    import basana as bs
    from basana.core import event as bsevent

    calls: List[dict] = []
    obs = {"outcome": "returned", "exc": "", "inflight_cancelled": False, "inflight_finished": False}
    orig_factory = logging.getLogRecordFactory()

    class ProducerError(Exception):
        pass

    async def scenario(loop):
        def now_ms():
            return round(loop.time() * 1000)
        d = bs.backtesting_dispatcher(max_concurrent=L["maxc"]) if L["disp"] == "bt" else bs.realtime_dispatcher(max_concurrent=L["maxc"])
        d.stop_on_handler_exceptions = L["exit"] == "handler_error_stop"

        class P(bsevent.Producer):
            def __init__(self, k, spec):
                self.k, self.spec = k, spec

            async def initialize(self):
                calls.append({"p": self.k, "c": "init_begin", "t": now_ms()})
                await asyncio.sleep(0.001 * self.k)
                if self.spec["init"] == "raise":
                    calls.append({"p": self.k, "c": "init_raise", "t": now_ms()})
                    raise ProducerError(f"init {self.k}")
                calls.append({"p": self.k, "c": "init_end", "t": now_ms()})

            async def main(self):
                calls.append({"p": self.k, "c": "main_begin", "t": now_ms()})
                await asyncio.sleep(0.002)
                if self.spec["main"] == "raise":
                    raise ProducerError(f"main {self.k}")
                if self.spec["main"] == "forever":
                    await asyncio.sleep(10**6)

            async def finalize(self):
                calls.append({"p": self.k, "c": "fin", "t": now_ms()})
                try:
                    if self.spec["fin"] == "raise":
                        raise ProducerError(f"fin {self.k}")
                    # closing a session / socket suspends: the run must not end before this is over
                    await asyncio.sleep(0.001 * (len(L["producers"]) - self.k + 1))
                    await asyncio.sleep(0)
                except asyncio.CancelledError:
                    calls.append({"p": self.k, "c": "fin_cancelled", "t": now_ms()})
                    raise
                finally:
                    if not any(c["c"] == "fin_cancelled" and c["p"] == self.k for c in calls):
                        calls.append({"p": self.k, "c": "fin_end", "t": now_ms()})
        base = 0 if L["disp"] == "rt" else 1
        for k, spec in enumerate(L["producers"], start=1):
            p = P(k, spec)
            evs = [bsevent.Event(vloop.EPOCH + datetime.timedelta(milliseconds=10 * (i + base))) for i in range(3)]
            src = bsevent.FifoQueueEventSource(producer=p, events=evs)

            async def handler(ev, k=k):
                calls.append({"p": k, "c": "handler", "t": now_ms()})
                first = not any(c["c"] == "handler_first" for c in calls)
                if first:
                    calls.append({"p": k, "c": "handler_first", "t": now_ms()})
                    if L["exit"] == "stop_handler":
                        d.stop()
                    if L["exit"] in ("handler_error_stop", "handler_error_continue"):
                        raise RuntimeError("scripted handler failure")
                try:
                    await asyncio.sleep(L["handler_ms"] / 1000)
                    obs["inflight_finished"] = obs["inflight_finished"] or L["handler_ms"] >= 1000
                except asyncio.CancelledError:
                    obs["inflight_cancelled"] = True
                    raise
            d.subscribe(src, handler)
        run_task = asyncio.ensure_future(d.run(stop_signals=[]))

        async def outside():
            if L["exit"] == "external_cancel":
                await asyncio.sleep(0.015)
                run_task.cancel()
            elif L["exit"] == "external_stop":
                await asyncio.sleep(0.015)
                d.stop()
            elif L["exit"] == "stop_during_init":
                await asyncio.sleep(0.0005)        # the producers are still inside initialize()
                d.stop()
            elif L["disp"] == "rt" and L["exit"] in ("exhausted", "handler_error_continue"):
                await asyncio.sleep(0.5)          # a realtime dispatcher never runs out of events by itself
                d.stop()
        o = asyncio.ensure_future(outside())
        t0 = now_ms()
        try:
            await asyncio.wait_for(asyncio.shield(run_task), timeout=3600)
        except asyncio.TimeoutError:
            obs["outcome"] = "timeout"
            run_task.cancel()
        except asyncio.CancelledError:
            obs["outcome"] = "raised_cancelled"
        except ProducerError as e:
            obs["outcome"], obs["exc"] = "raised_producer_error", str(e)
        except BaseException as e:  # noqa: BLE001
            obs["outcome"], obs["exc"] = "raised_internal", f"{type(e).__name__}: {e}"
        obs["run_ms"] = now_ms() - t0
        o.cancel()
    logging.disable(logging.CRITICAL)
    try:
        vloop.run(scenario)
    finally:
        logging.disable(logging.NOTSET)
    # process-wide logging after the run
    restored = logging.getLogRecordFactory() is orig_factory
    log_ok = True
    try:
        logging.getLogger("verif.probe").debug("probe")
        rec = logging.getLogRecordFactory()("n", logging.INFO, "f", 1, "m", (), None)
        import time as _t
        log_ok = abs(rec.created - _t.time()) < 3600
    except Exception:  # noqa: BLE001
        log_ok = False
    finally:
        logging.setLogRecordFactory(orig_factory)
    return {"kind": "life", "cfg": L, "calls": calls, "outcome": obs["outcome"], "exc": obs["exc"], "run_ms": obs.get("run_ms", -1),
            "inflight_cancelled": obs["inflight_cancelled"], "inflight_finished": obs["inflight_finished"],
            "log_restored": bool(restored and log_ok)}
