import asyncio, datetime
from basana.core import dispatcher, event
UTC=datetime.timezone.utc
def T(i): return datetime.datetime(2000,1,1,tzinfo=UTC)+datetime.timedelta(days=i)
async def main2():
    d = dispatcher.backtesting_dispatcher()
    src = event.FifoQueueEventSource(events=[event.Event(T(0))])
    derived = event.FifoQueueEventSource()
    seen=[]
    async def h(e): seen.append(("src", e.when.day, d.now().day))
    async def hd(e): seen.append(("derived", e.when.day, d.now().day))
    d.subscribe(src,h); d.subscribe(derived,hd)
    async def job(): derived.push(event.Event(d.now())); seen.append(("job", d.now().day))
    d.schedule(T(5), job)
    await d.run()
    print("final-drain job pushes event:", seen, "left in queue:", len(derived._queue))
asyncio.run(main2())
