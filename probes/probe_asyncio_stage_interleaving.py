import asyncio, datetime
from basana.core import dispatcher, event
UTC=datetime.timezone.utc
def T(i): return datetime.datetime(2000,1,1,tzinfo=UTC)+datetime.timedelta(days=i)
class Ev(event.Event):
    def __init__(s, when, name): super().__init__(when); s.name=name
async def run(maxc, susp=0):
    d = dispatcher.backtesting_dispatcher(max_concurrent=maxc)
    log=[]
    srcs = {n: event.FifoQueueEventSource(events=[Ev(T(1), n+"1")]) for n in "ABC"}
    der = event.FifoQueueEventSource()
    def mk(tag, push=False):
        async def h(e):
            log.append(f"{tag}:{e.name}")
            for _ in range(susp): await asyncio.sleep(0)
            if push: der.push(Ev(d.now(), "d"+e.name))
            if susp: log.append(f"{tag}:{e.name}.end")
        return h
    async def pre(e): log.append(f"pre:{e.name}")
    async def post(e): log.append(f"post:{e.name}")
    d.subscribe_all(pre, front_run=True); d.subscribe_all(post)
    d.subscribe(srcs["A"], mk("h1", push=True)); d.subscribe(srcs["A"], mk("h2"))
    d.subscribe(der, mk("hd"))
    d.subscribe(srcs["B"], mk("h1")); d.subscribe(srcs["C"], mk("h1"))
    await d.run(stop_signals=[])
    return log
for m in (1,2,3,50):
    print(m, " ".join(asyncio.run(run(m))))
print("susp1")
for m in (1,2):
    print(m, " ".join(asyncio.run(run(m,1))))
