import asyncio, datetime
from decimal import Decimal
from basana.core import dispatcher, event
UTC=datetime.timezone.utc
def T(i): return datetime.datetime(2000,1,1,tzinfo=UTC)+datetime.timedelta(days=i)
# C13: scheduler drop
async def main():
    d = dispatcher.backtesting_dispatcher()
    src = event.FifoQueueEventSource(events=[event.Event(T(0))])
    ran=[]
    async def h(e): pass
    d.subscribe(src,h)
    def job(i):
        async def j(): ran.append((i, d.now()))
        return j
    for i in [1,3,2]:
        d.schedule(T(i), job(i))
    await d.run()
    print("C13 ran:", [r[0] for r in ran])
asyncio.run(main())

# C12: clock != event time for events pushed by scheduled job
async def main2():
    d = dispatcher.backtesting_dispatcher()
    src = event.FifoQueueEventSource(events=[event.Event(T(0)), event.Event(T(10))])
    derived = event.FifoQueueEventSource()
    seen=[]
    async def h(e): seen.append(("src", e.when.day, d.now().day))
    async def hd(e): seen.append(("derived", e.when.day, d.now().day))
    d.subscribe(src,h); d.subscribe(derived,hd)
    async def job(): derived.push(event.Event(d.now()))
    d.schedule(T(5), job)
    await d.run()
    print("C12:", seen)
asyncio.run(main2())
