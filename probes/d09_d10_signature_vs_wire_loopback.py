import asyncio, hmac, hashlib
from decimal import Decimal
from aiohttp import web
from basana.external.binance import client as bc
from basana.external.bitstamp import client as sc
got=[]
async def handler(request):
    body = await request.read()
    raw_qs = request.rel_url.raw_query_string
    got.append((request.method, request.rel_url.raw_path, raw_qs, body, dict(request.headers)))
    return web.json_response({})
async def main():
    app = web.Application(); app.router.add_route("*", "/{tail:.*}", handler)
    runner = web.AppRunner(app); await runner.setup()
    site = web.TCPSite(runner, "127.0.0.1", 0); await site.start()
    port = site._server.sockets[0].getsockname()[1]
    cfg={"api":{"http":{"base_url":f"http://127.0.0.1:{port}/"}}}
    c = bc.APIClient("key","secret", config_overrides=cfg)
    await c.spot_account.query_order("BTCUSDT", orig_client_order_id="a:b/c d+e~f")
    await c.spot_account.create_order("BTCUSDT","BUY","LIMIT", quantity=Decimal("0.00000085"), price=Decimal("1E+3"), new_client_order_id="a:b/c d+e~f")
    try:
        await c.cross_margin_account.transfer_from_spot_account("BTC", Decimal("0.5"))
    except Exception as ex: print("transfer raised", type(ex).__name__, ex)
    for m,p,qs,body,h in got:
        i = qs.rfind("&signature=")
        signed = qs[:i] if i>=0 else qs
        sig = qs[i+len("&signature="):]
        exp = hmac.new(b"secret", (signed.encode()+body), hashlib.sha256).hexdigest()
        print(m,p,qs,body, "SIG OK" if exp==sig else "SIG MISMATCH")
    got.clear()
    b = sc.APIClient("key","secret", config_overrides=cfg)
    await b.create_limit_order("buy","btcusd",Decimal("0.00000085"),Decimal("1E+3"), client_order_id="a:b/c d+e~f")
    for m,p,qs,body,h in got:
        print(m,p,qs,body,{k:v for k,v in h.items() if k.startswith("X-Auth") or k=="Content-Type"})
    await runner.cleanup()
asyncio.run(main())
