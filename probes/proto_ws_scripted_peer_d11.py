import asyncio, json, contextlib, sys, selectors, datetime, time as _time
import aiohttp
sys.path.insert(0,'/tmp/exp')
import basana.core.websockets as core_ws
from basana.core import event, dt as bdt
class VLoop(asyncio.SelectorEventLoop):
    def __init__(self):
        super().__init__(selectors.SelectSelector()); self._vt=1000.0
    def time(self): return self._vt
    def _run_once(self):
        if not self._ready and self._scheduled:
            w=self._scheduled[0]._when
            if w>self._vt: self._vt=w
        super()._run_once()
class FakeWS:
    """Scripted peer: subset of aiohttp.ClientWebSocketResponse used by basana."""
    def __init__(self, peer, epoch):
        self.peer=peer; self.epoch=epoch; self._closed=False; self._q=asyncio.Queue(); self.sent=[]
    @property
    def closed(self): return self._closed
    async def send_str(self, s):
        if self._closed: raise ConnectionResetError("Cannot write to closing transport")
        self.sent.append(json.loads(s)); self.peer.on_frame(self, json.loads(s))
    async def close(self):
        if not self._closed:
            self._closed=True; self._q.put_nowait(aiohttp.WSMessage(aiohttp.WSMsgType.CLOSED,None,None))
    def __aiter__(self): return self
    async def __anext__(self):
        if self._closed and self._q.empty(): raise StopAsyncIteration
        m=await self._q.get()
        if m.type in (aiohttp.WSMsgType.CLOSE, aiohttp.WSMsgType.CLOSING, aiohttp.WSMsgType.CLOSED):
            self._closed=True; raise StopAsyncIteration
        return m
    # peer side
    def feed_text(self, obj): self._q.put_nowait(aiohttp.WSMessage(aiohttp.WSMsgType.TEXT, obj if isinstance(obj,str) else json.dumps(obj), None))
    def server_close(self): self._q.put_nowait(aiohttp.WSMessage(aiohttp.WSMsgType.CLOSE, 1000, None))
class FakeSession:
    def __init__(self, peer): self.peer=peer
    def ws_connect(self, url, heartbeat=None):
        peer=self.peer
        @contextlib.asynccontextmanager
        async def cm():
            ws = peer.accept()
            try: yield ws
            finally: await ws.close()
        return cm()
class Peer:
    def __init__(self, loop): self.loop=loop; self.conns=[]; self.script={}; self.connect_times=[]
    def accept(self):
        self.connect_times.append(self.loop.time())
        if self.script.get(("refuse",len(self.connect_times))): raise aiohttp.ClientConnectionError("refused")
        ws=FakeWS(self,len(self.conns)+1); self.conns.append(ws); return ws
    def on_frame(self, ws, frame):
        act=self.script.get((ws.epoch, len(ws.sent)))
        if act=="close": ws.server_close()
        elif act=="garbage": ws.feed_text("{not json")
        elif act=="data": ws.feed_text({"channel":frame["channel"],"x":1})
class Ev(event.Event):
    def __init__(s,m): super().__init__(bdt.utc_now()); s.m=m
class Src(core_ws.ChannelEventSource):
    async def push_from_message(self, message): self.push(Ev(message))
class Cli(core_ws.WebSocketClient):
    async def subscribe_to_channels(self, channels, ws_cli):
        for c in sorted(channels): await ws_cli.send_str(json.dumps({"request":"subscribe","channel":c}))
    async def handle_message(self, message):
        if (c:=message.get("channel")) and (s:=self.get_channel_event_source(c)):
            await s.push_from_message(message); return True
        return False
    async def on_error(self, e): self.errors.append(repr(e))
def run():
    loop=VLoop(); asyncio.set_event_loop(loop)
    core_ws.time = type("T",(),{"time":staticmethod(lambda: loop.time())})
    peer=Peer(loop)
    peer.script={(1,1):"close",(2,2):"garbage",(3,1):"data",("refuse",4):True}
    cli=Cli("ws://x", session=FakeSession(peer)); cli.errors=[]; cli.backoff_secs=2
    s1=Src(cli); s2=Src(cli)
    cli.set_channel_event_source("c1",s1); cli.set_channel_event_source("c2",s2)
    async def main():
        t=asyncio.ensure_future(cli.main())
        await asyncio.sleep(7)
        cli.schedule_resubscription(["c1"])       # D11: no SUBSCRIBE expected today
        await asyncio.sleep(5)
        peer.conns[-1].server_close()
        await asyncio.sleep(10)
        t.cancel()
        try: await t
        except asyncio.CancelledError: pass
    loop.run_until_complete(main()); loop.close()
    for ws in peer.conns: print("conn",ws.epoch,[f["channel"] for f in ws.sent])
    print("connect times",[round(x-1000,3) for x in peer.connect_times]); print("errors",cli.errors)
    print("events s1",[e.m for e in s1._queue],"s2",[e.m for e in s2._queue])
t0=_time.time(); run(); print("wall %.3fs"%(_time.time()-t0))
