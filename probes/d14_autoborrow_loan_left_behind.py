import asyncio, datetime, logging
from decimal import Decimal
from basana.core import dispatcher, event, bar, dt
from basana.core.pair import Pair, PairInfo
from basana.core.enums import OrderOperation
from basana.backtesting import exchange, lending, fees, liquidity
UTC=datetime.timezone.utc
def T(i): return datetime.datetime(2000,1,1,tzinfo=UTC)+datetime.timedelta(days=i)
def B(i,pair,o,h,l,c,v): return bar.BarEvent(T(i), bar.Bar(T(i-1),pair,Decimal(o),Decimal(h),Decimal(l),Decimal(c),Decimal(v)))
A=Pair("BTC","USD")
async def s1():
    d = dispatcher.backtesting_dispatcher()
    ls = lending.MarginLoans("USD", default_conditions=lending.MarginLoanConditions("USD", Decimal(0), datetime.timedelta(days=365), Decimal(10), Decimal("0.5")))
    e = exchange.Exchange(d, {"USD": Decimal(100)}, lending_strategy=ls, liquidity_strategy_factory=liquidity.InfiniteLiquidity)
    e.set_pair_info(A, PairInfo(2,2)); e.set_symbol_precision("USD",2); e.set_symbol_precision("BTC",2)
    src = event.FifoQueueEventSource(events=[B(1,A,10,10,10,10,100), B(2,A,10,10,10,10,100)])
    e.add_bar_source(src)
    done=[]
    async def strat(ev):
        if done: return
        done.append(1)
        before = (await e.get_balances(), await e.get_loans(is_open=True))
        try:
            await e.create_limit_order(OrderOperation.BUY, A, Decimal(30), Decimal(10), auto_borrow=True)
            print("accepted")
        except Exception as ex:
            print("rejected:", type(ex).__name__, ex)
        after = (await e.get_balances(), await e.get_loans(is_open=True))
        print("before", before); print("after ", after)
    e.subscribe_to_bar_events(A, strat)
    await d.run()
asyncio.run(s1())
