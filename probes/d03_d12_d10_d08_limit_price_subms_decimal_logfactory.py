import asyncio, datetime, logging
from decimal import Decimal
from basana.core import dispatcher, event, bar, dt
from basana.core.pair import Pair, PairInfo
from basana.core.enums import OrderOperation
from basana.backtesting import exchange, lending, fees, liquidity
UTC=datetime.timezone.utc
def T(i): return datetime.datetime(2000,1,1,tzinfo=UTC)+datetime.timedelta(days=i)
def B(i,pair,o,h,l,c,v): return bar.BarEvent(T(i), bar.Bar(T(i-1),pair,Decimal(o),Decimal(h),Decimal(l),Decimal(c),Decimal(v)))
A=Pair("BTC","USD")
async def c04():
    d = dispatcher.backtesting_dispatcher()
    e = exchange.Exchange(d, {"USD": Decimal(100000)}, liquidity_strategy_factory=lambda: liquidity.VolumeShareImpact(Decimal(25), Decimal(0)))
    e.set_pair_info(A, PairInfo(0,2))
    # volume 7.96 → liquidity 1.99 → truncated to 1 base, but quote computed for 1.99
    src = event.FifoQueueEventSource(events=[B(1,A,100,100,100,100,"7.96"), B(2,A,100,100,100,100,"7.96")])
    e.add_bar_source(src)
    o = await e.create_limit_order(OrderOperation.BUY, A, Decimal(5), Decimal(100))
    evs=[]
    async def oe(ev): evs.append(ev.order)
    e.subscribe_to_order_events(oe)
    await d.run()
    info = await e.get_order_info(o.id)
    print("C04", info.amount_filled, info.quote_amount_filled, "fill price", info.fill_price, "limit", info.limit_price)
asyncio.run(c04())

# C19 sub-ms tail
from basana.core import bar as cbar
tb = cbar.RealTimeTradesToBar(A, 60, skip_first_bar=False)
errs=[]
tb.on_error=lambda e: errs.append(str(e))
begin = T(0); end = begin + datetime.timedelta(seconds=60, milliseconds=-1)
tb.push_trade(begin+datetime.timedelta(seconds=1), Decimal(10), Decimal(1))
tb.push_trade(begin+datetime.timedelta(seconds=59, microseconds=999500), Decimal(11), Decimal(2))
tb.push_trade(begin+datetime.timedelta(seconds=61), Decimal(12), Decimal(4))
tb._flush(begin,end)
b1=tb.pop()
begin+=datetime.timedelta(seconds=60); end+=datetime.timedelta(seconds=60)
tb._flush(begin,end)
b2=tb.pop()
print("C19 bars vol", b1.bar.volume, b2.bar.volume, "errors", errs)

# C17
print("C17 str:", str(Decimal("0.00000085")), str(Decimal("1E+3")), str(Decimal("100").normalize()))
# C14 logs
import basana.core.logs as logs
f0 = logging.getLogRecordFactory()
async def c14log():
    d = dispatcher.backtesting_dispatcher()
    class P(event.Producer):
        async def main(self): raise RuntimeError("boom")
    src = event.FifoQueueEventSource(producer=P())
    async def h(e): pass
    d.subscribe(src,h)
    try: await d.run(stop_signals=[])
    except Exception as ex: print("run raised", ex)
asyncio.run(c14log())
print("C14 factory restored:", logging.getLogRecordFactory() is f0)
try:
    logging.getLogger("x").warning("hello")
    print("logging ok")
except Exception as ex: print("logging raised", type(ex).__name__, ex)
logging.setLogRecordFactory(f0)
