import asyncio, datetime, logging
from decimal import Decimal
from basana.core import dispatcher, event, bar, dt
from basana.core.pair import Pair, PairInfo
from basana.core.enums import OrderOperation
from basana.backtesting import exchange, lending, fees, liquidity
UTC=datetime.timezone.utc
def T(i): return datetime.datetime(2000,1,1,tzinfo=UTC)+datetime.timedelta(days=i)
def B(i,pair,o,h,l,c,v): return bar.BarEvent(T(i), bar.Bar(T(i-1),pair,Decimal(o),Decimal(h),Decimal(l),Decimal(c),Decimal(v)))
A=Pair("BTC","USD")
# C14 realtime: pool full with jobs and events due together
async def c14():
    d = dispatcher.realtime_dispatcher(max_concurrent=1)
    now = dt.utc_now()
    src = event.FifoQueueEventSource(events=[event.Event(now), event.Event(now)])
    n=[0]
    async def h(e):
        await asyncio.sleep(0.05); n[0]+=1
    async def job():
        await asyncio.sleep(0.05); n[0]+=1
        if n[0]>=4: d.stop()
    d.subscribe(src,h)
    d.schedule(now, job); d.schedule(now, job)
    try:
        await asyncio.wait_for(d.run(stop_signals=[]), 3)
        print("C14 run returned", n)
    except BaseException as ex:
        print("C14 run raised", type(ex), ex)
asyncio.run(c14())

# C10 zero equity
async def c10():
    d = dispatcher.backtesting_dispatcher()
    ls = lending.MarginLoans("USD", default_conditions=lending.MarginLoanConditions("USD", Decimal(10), datetime.timedelta(days=365), Decimal(0), Decimal("0.5")))
    e = exchange.Exchange(d, {}, lending_strategy=ls)
    e.set_symbol_precision("USD",2); e.set_symbol_precision("BTC",8)
    src = event.FifoQueueEventSource(events=[B(1,A,10,10,10,10,100), B(2,A,10,10,10,10,100)])
    e.add_bar_source(src)
    res=[]
    async def strat(ev):
        if not res:
            try:
                l = await e.create_loan("USD", Decimal("1000000"))
                res.append(("granted", l))
            except Exception as ex: res.append(("refused", ex))
    e.subscribe_to_bar_events(A, strat)
    await d.run()
    print("C10 zero equity:", res[0][0], (await e.get_balances()))
asyncio.run(c10())

# C06/C07: cancel order while margin level < 100
async def c06():
    d = dispatcher.backtesting_dispatcher()
    ls = lending.MarginLoans("USD", default_conditions=lending.MarginLoanConditions("USD", Decimal(0), datetime.timedelta(days=365), Decimal(0), Decimal("0.5")))
    e = exchange.Exchange(d, {"USD": Decimal(100)}, lending_strategy=ls, liquidity_strategy_factory=liquidity.InfiniteLiquidity)
    e.set_pair_info(A, PairInfo(2,2)); e.set_symbol_precision("USD",2); e.set_symbol_precision("BTC",2)
    src = event.FifoQueueEventSource(events=[B(1,A,10,10,10,10,100), B(2,A,10,10,10,10,100), B(3,A,100,100,100,100,100), B(4,A,100,100,100,100,100)])
    e.add_bar_source(src)
    st={}
    async def strat(ev):
        day=ev.when.day
        try:
            if day==2:
                st['loan']=await e.create_loan("BTC", Decimal(10))   # borrow 10 BTC worth 100 USD; equity=100 USD, used = .5*100=50 → 200%
                o=await e.create_limit_order(OrderOperation.SELL, A, Decimal(5), Decimal(500))  # holds 5 BTC
                st['oid']=o.id
            if day==4:
                # price went to 100: borrowed value 1000*0.5=500; equity: USD 100 + BTC net 0 => 100/500=20%
                print("margin level", ls.margin_level, await e.get_balances())
                try:
                    await e.cancel_order(st['oid'])
                    print("cancel ok")
                except Exception as ex:
                    print("cancel raised", type(ex).__name__, ex)
                print("order info", await e.get_order_info(st['oid']))
                print("balances", await e.get_balances())
        except Exception as ex:
            import traceback; traceback.print_exc()
    e.subscribe_to_bar_events(A, strat)
    await d.run()
asyncio.run(c06())
