---- MODULE TBTrace ----
EXTENDS Integers, Sequences, TLC, Json, IOUtils, FiniteSets
Traces == ndJsonDeserialize(IOEnv.TRACE_FILE)
VARIABLES tid, l, st, viol
vars == <<tid, l, st, viol>>
TB(t) == INSTANCE TB WITH Tpp <- Traces[t].tpp, Period <- Traces[t].period, InitTok <- Traces[t].init
Init == tid = 1 /\ l = 1 /\ st = TB(1)!TBInit /\ viol = {}
Step ==
  /\ tid <= Len(Traces)
  /\ LET tr == Traces[tid] IN
     IF l <= Len(tr.steps) THEN
        LET ev == tr.steps[l]
            r == TB(tid)!Consume(st, ev.at)
            ok == r.wait[1] * ev.wden = ev.wnum * r.wait[2]
        IN /\ st' = r.st /\ l' = l + 1 /\ tid' = tid
           /\ viol' = IF ok THEN viol ELSE viol \cup {<<l, "Step_Consume">>}
     ELSE /\ PrintT(<<"VERDICT", tr.id, viol>>)
          /\ tid' = tid + 1 /\ l' = 1 /\ viol' = {}
          /\ st' = IF tid + 1 <= Len(Traces) THEN TB(tid+1)!TBInit ELSE st
          /\ TLCSet(1, tid)
Spec == Init /\ [][Step]_vars
Done == TLCGet(1) = Len(Traces)
====
