import json, random, sys
from fractions import Fraction
sys.path.insert(0,'/repo')
import basana.core.token_bucket as tbm
class FakeTime:
    t=0.0
    @classmethod
    def time(cls): return cls.t
tbm.time = FakeTime
rnd = random.Random(1)
N=int(sys.argv[1])
with open('tr.ndjson','w') as f:
    for i in range(N):
        tpp=rnd.choice([1,2,5]); period=rnd.choice([1,2,7]); init=rnd.choice([0,1,tpp,2*tpp])
        FakeTime.t=0.0
        lim = tbm.TokenBucketLimiter(tpp, period, init)
        steps=[]; t=0
        for k in range(rnd.randint(1,30)):
            t += rnd.choice([0,0,1,2,10]); FakeTime.t=float(t)
            w = lim.consume()
            fr = Fraction(w).limit_denominator(1000)
            steps.append({"at":t,"wnum":fr.numerator,"wden":fr.denominator})
        if i==3: steps[-1]["wnum"]+=1
        f.write(json.dumps({"id":i,"tpp":tpp,"period":period,"init":init,"steps":steps})+"\n")
