---- MODULE TB ----
EXTENDS Integers, Sequences
\* tokens scaled by S = PeriodTicks (so refill per tick = Tpp), times in ticks
CONSTANTS Tpp, Period, InitTok
TBInit == [tok |-> InitTok * Period, last |-> 0]
\* Consume at time t: returns [st |-> new state, wait |-> <<num,den>>]
Consume(st, t) ==
  LET refilled == st.tok + (t - st.last) * Tpp
      capped   == IF refilled > Tpp * Period THEN Tpp * Period ELSE refilled
      after    == capped - Period
  IN [st |-> [tok |-> after, last |-> t],
      wait |-> IF after >= 0 THEN <<0, 1>> ELSE << -after, Tpp >>]   \* wait ticks = -after/Period / Tpp * Period
====
