import asyncio, datetime, heapq, time as _time, selectors
from basana.core import dispatcher, event, dt as bdt
class VLoop(asyncio.SelectorEventLoop):
    """Virtual time: clock advances only when nothing is ready."""
    def __init__(self):
        super().__init__(selectors.SelectSelector())
        self._vt = 1_000_000.0
    def time(self): return self._vt
    def _run_once(self):
        if not self._ready and self._scheduled:
            # jump to next timer
            when = self._scheduled[0]._when
            if when > self._vt: self._vt = when
        super()._run_once()
EPOCH = datetime.datetime(2020,1,1,tzinfo=datetime.timezone.utc)
def run(coro_fn):
    loop = VLoop(); asyncio.set_event_loop(loop)
    base = loop.time()
    bdt.utc_now = lambda: EPOCH + datetime.timedelta(seconds=loop.time()-base)
    try: return loop.run_until_complete(coro_fn(loop))
    finally: loop.close()
async def scenario(loop):
    d = dispatcher.realtime_dispatcher(max_concurrent=2)
    now = bdt.utc_now()
    src = event.FifoQueueEventSource(events=[event.Event(now+datetime.timedelta(seconds=s)) for s in (0,5,5,3600)])
    log=[]
    async def h(e):
        log.append(("ev", (e.when-EPOCH).total_seconds(), (bdt.utc_now()-EPOCH).total_seconds()))
        await asyncio.sleep(1.5)
        if e.when-EPOCH >= datetime.timedelta(seconds=3600): d.stop()
    async def job(): log.append(("job", (bdt.utc_now()-EPOCH).total_seconds()))
    d.subscribe(src,h); d.schedule(now+datetime.timedelta(seconds=100), job)
    await d.run(stop_signals=[])
    return log
t=_time.time()
for i in range(20): log = run(scenario)
print(log, "20 runs of 1h virtual in %.2fs" % (_time.time()-t))
