import random, sys
from fractions import Fraction as F
import basana.core.token_bucket as tbm
class FT:
    t=0.0
    @classmethod
    def time(c): return c.t
tbm.time=FT
rnd=random.Random(5)
worst=0; viol=0
for it in range(20000):
    tpp=rnd.choice([0.5,1,2,5,10,3.3]); per=rnd.choice([1,2,7,60]); init=rnd.choice([0,1,tpp,2*tpp,10*tpp])
    FT.t=1000.0
    lim=tbm.TokenBucketLimiter(tpp,per,init)
    rate=tpp/per; cap=max(tpp,init)
    t=1000.0; sends=[]
    for k in range(rnd.randint(1,40)):
        t+=rnd.choice([0,0,0,0.1,per/tpp,per*3,0.37])
        FT.t=t
        w=lim.consume()
        assert w>=0
        sends.append(t+w)
    # sends may not be sorted?
    ss=sorted(sends)
    if ss!=sends: print("unsorted sends", tpp,per,init); 
    for i in range(len(ss)):
        for j in range(i,len(ss)):
            n=j-i+1; L=ss[j]-ss[i]
            b=cap+rate*L+1
            if n>b+1e-9: viol+=1; print("VIOL",tpp,per,init,n,L,b); break
            worst=max(worst,n-(cap+rate*L))
print("violations",viol,"worst slack used",worst)
