import asyncio, datetime, logging
from decimal import Decimal
from basana.core import dispatcher, event, bar, dt
from basana.core.pair import Pair, PairInfo
from basana.core.enums import OrderOperation
from basana.backtesting import exchange, lending, fees, liquidity
UTC=datetime.timezone.utc
def T(i): return datetime.datetime(2000,1,1,tzinfo=UTC)+datetime.timedelta(days=i)
def B(i,pair,o,h,l,c,v): return bar.BarEvent(T(i), bar.Bar(T(i-1),pair,Decimal(o),Decimal(h),Decimal(l),Decimal(c),Decimal(v)))
A=Pair("BTC","USD")
async def c06b():
    d = dispatcher.backtesting_dispatcher()
    ls = lending.MarginLoans("USD", default_conditions=lending.MarginLoanConditions("USD", Decimal(0), datetime.timedelta(days=365), Decimal(0), Decimal("0.5")))
    e = exchange.Exchange(d, {"USD": Decimal(100)}, lending_strategy=ls, liquidity_strategy_factory=liquidity.InfiniteLiquidity)
    e.set_pair_info(A, PairInfo(2,2)); e.set_symbol_precision("USD",2); e.set_symbol_precision("BTC",2)
    src = event.FifoQueueEventSource(events=[B(1,A,10,10,10,10,100), B(2,A,10,10,10,10,100), B(3,A,100,100,100,100,100), B(4,A,100,100,100,100,100)])
    e.add_bar_source(src)
    st={}; seen=[]
    async def strat(ev):
        day=ev.when.day; seen.append(day)
        if day==3:
            st['loan']=await e.create_loan("BTC", Decimal(10))
            o=await e.create_market_order(OrderOperation.SELL, A, Decimal(1)); st["oid"]=o.id
            o2=await e.create_limit_order(OrderOperation.SELL, A, Decimal(1), Decimal(5)); st['oid2']=o2.id
    e.subscribe_to_bar_events(A, strat)
    await d.run()
    print("strategy saw days", seen)
    print("order", await e.get_order_info(st['oid']))
    print("order2", await e.get_order_info(st['oid2']))
    print("balances", await e.get_balances())
logging.basicConfig(level=logging.ERROR, format="%(levelname)s %(message).150s")
asyncio.run(c06b())
