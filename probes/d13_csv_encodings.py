import asyncio, codecs, datetime, tempfile, os
CSV = os.path.join(tempfile.mkdtemp(), "t.csv")
from basana.core.pair import Pair
from basana.external.bitstamp.csv import bars
txt = "datetime,open,high,low,close,volume\n2015-01-02 00:00:00,3,4,2,3,1.5\n2015-01-01 00:00:00,1,2,1,2,0\n2015-01-01 00:00:00,1,2,1,2,7\n"
encs = {"utf8":(b"", "utf-8"), "utf8bom":(codecs.BOM_UTF8,"utf-8"), "u16le_bom":(codecs.BOM_UTF16_LE,"utf-16-le"), "u16be_bom":(codecs.BOM_UTF16_BE,"utf-16-be"),
 "u32le_bom":(codecs.BOM_UTF32_LE,"utf-32-le"), "u32be_bom":(codecs.BOM_UTF32_BE,"utf-32-be"), "u16le":(b"","utf-16-le"), "u16be":(b"","utf-16-be"), "u32le":(b"","utf-32-le")}
async def run(name):
    bom, enc = encs[name]
    open(CSV,"wb").write(bom+txt.encode(enc))
    src = bars.BarSource(Pair("BTC","USD"), CSV, "1d", sort=True)
    await src.initialize()
    out=[]
    try:
        while (e:=src.pop()) is not None: out.append((e.when.isoformat(), str(e.bar.open), str(e.bar.volume)))
        print(name, out)
    except Exception as ex: print(name, "RAISED", type(ex).__name__, str(ex)[:100])
for n in encs: asyncio.run(run(n))
