import asyncio, datetime, logging
from decimal import Decimal
from basana.core import dispatcher, event, bar
from basana.core.pair import Pair, PairInfo
from basana.core.enums import OrderOperation
from basana.backtesting import exchange, lending, fees, liquidity
UTC=datetime.timezone.utc
def T(i): return datetime.datetime(2000,1,1,tzinfo=UTC)+datetime.timedelta(days=i)
def B(i,pair,o,h,l,c,v): return bar.BarEvent(T(i), bar.Bar(T(i-1),pair,Decimal(o),Decimal(h),Decimal(l),Decimal(c),Decimal(v)))
A=Pair("AAA","USD"); Bp=Pair("BBB","USD"); C=Pair("CCC","USD")
# C03 look-ahead w/ saturated pool
async def c03(maxc):
    d = dispatcher.backtesting_dispatcher(max_concurrent=maxc)
    e = exchange.Exchange(d, {"USD": Decimal(1000)}, liquidity_strategy_factory=liquidity.InfiniteLiquidity)
    sa = event.FifoQueueEventSource(events=[B(1,A,10,10,10,10,100),B(2,A,10,10,10,10,100)])
    sb = event.FifoQueueEventSource(events=[B(1,Bp,10,10,10,10,100),B(2,Bp,10,10,10,10,100)])
    sc = event.FifoQueueEventSource(events=[B(1,C,10,10,10,10,100),B(2,C,20,20,20,20,100)])
    placed=[]
    async def strat(ev):
        if not placed:
            o = await e.create_market_order(OrderOperation.BUY, C, Decimal(1))
            placed.append((o.id, d.now()))
    e.add_bar_source(sa)
    e.subscribe_to_bar_events(A, strat)
    e.add_bar_source(sb)
    e.add_bar_source(sc)
    await d.run()
    oid, at = placed[0]
    o = [x for x in e._get_all_orders() if x.id==oid][0]
    print("maxc",maxc,"placed at", at.day, "fills", [(f.when.day, f.balance_updates) for f in o.fills])
for m in (1,2,3,50): asyncio.run(c03(m))
