import asyncio, datetime, logging, time
from basana.core import dispatcher, event, dt
UTC=datetime.timezone.utc
def T(i): return datetime.datetime(2000,1,1,tzinfo=UTC)+datetime.timedelta(days=i)
logging.disable(logging.CRITICAL)
class P(event.Producer):
    def __init__(s, name, log, fail=None, main_forever=True): s.name=name; s.log=log; s.fail=fail; s.forever=main_forever
    async def initialize(s):
        s.log.append(f"{s.name}.init");
        await asyncio.sleep(0.01)
        if s.fail=="init": raise RuntimeError(f"{s.name} init boom")
        s.log.append(f"{s.name}.init_done")
    async def main(s):
        s.log.append(f"{s.name}.main")
        if s.fail=="main":
            await asyncio.sleep(0.02); raise RuntimeError(f"{s.name} main boom")
        try:
            if s.forever: await asyncio.sleep(3600)
        except asyncio.CancelledError:
            s.log.append(f"{s.name}.main_cancelled"); raise
    async def finalize(s):
        s.log.append(f"{s.name}.fin")
        if s.fail=="fin": raise RuntimeError(f"{s.name} fin boom")
async def scenario(kind, fail, how):
    d = dispatcher.realtime_dispatcher() if kind=="rt" else dispatcher.backtesting_dispatcher()
    log=[]
    p1=P("p1",log,fail=fail, main_forever=(kind=="rt")); p2=P("p2",log, main_forever=(kind=="rt"))
    now = dt.utc_now()
    s1=event.FifoQueueEventSource(producer=p1, events=[event.Event(now if kind=="rt" else T(1)), event.Event(now if kind=="rt" else T(2))])
    s2=event.FifoQueueEventSource(producer=p2, events=[event.Event(now if kind=="rt" else T(1))])
    async def h(e):
        log.append("h.start")
        if how=="handler_stop": d.stop()
        if how=="handler_raise_stop": raise ValueError("handler boom")
        try:
            await asyncio.sleep(0.5 if how!="long_handler" else 3600)
            log.append("h.end")
        except asyncio.CancelledError:
            log.append("h.cancelled"); raise
    d.subscribe(s1,h); d.subscribe(s2,h)
    if how=="handler_raise_stop": d.stop_on_handler_exceptions=True
    if how=="stop_before": d.stop()
    t0=time.time()
    task = asyncio.ensure_future(d.run(stop_signals=[]))
    if how=="ext_cancel":
        await asyncio.sleep(0.1); task.cancel()
    if how in("ext_stop","long_handler"):
        await asyncio.sleep(0.1); d.stop()
    try:
        await asyncio.wait_for(asyncio.shield(task), 3)
        out="returned"
    except asyncio.TimeoutError:
        out="HANG"; task.cancel()
        try: await task
        except BaseException: pass
    except BaseException as ex:
        out=f"raised {type(ex).__name__}: {ex}"
    print(f"{kind:2} fail={str(fail):5} how={how:18} -> {out:40} {time.time()-t0:.2f}s", " ".join(log))
async def main():
    for kind in ("bt","rt"):
        for fail in (None,"init","main","fin"):
            await scenario(kind, fail, "plain" if kind=="bt" else "ext_stop")
        for how in ("handler_stop","handler_raise_stop","ext_cancel","ext_stop","long_handler","stop_before"):
            await scenario(kind, None, how)
asyncio.run(main())
