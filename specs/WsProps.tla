-------------------------------- MODULE WsProps --------------------------------
(***************************************************************************)
(* C18 over what a scripted peer observed of a websocket client run         *)
(* (harness/ws_impl.py).  Liveness is bounded response: B = X.cfg.bound_ms. *)
(*   attempts : connection attempt times                                     *)
(*   conns    : [conn, start, end, frames : <<[t, channels, raw]>>]          *)
(*   registered : [t, channel]   resub : [t, conn, channel]                  *)
(*   data     : [t, conn, channel, n]     events : [t, source, n]            *)
(*   keys     : [t, key]   keepalive : [t, key]                              *)
(***************************************************************************)
EXTENDS Integers, Sequences, FiniteSets

ToSet(s) == {s[k] : k \in DOMAIN s}
B(X) == X.cfg.bound_ms
ConnAt(X, t) == {c \in ToSet(X.conns) : c.start <= t /\ t < c.end}
HasFrame(c, ch, from, to) == \E f \in ToSet(c.frames) : f.t >= from /\ f.t <= to /\ \E k \in DOMAIN f.channels : f.channels[k] = ch

C18_Backoff(X) == \A i \in 1..(Len(X.attempts) - 1) : X.attempts[i + 1] - X.attempts[i] >= X.cfg.backoff_s * 1000
\* every registered channel is subscribed again after each connection is established
C18_SubscribedAfterConnect(X) ==
  \A c \in ToSet(X.conns) : c.end - c.start >= B(X) =>
     \A r \in ToSet(X.registered) : r.t <= c.start => HasFrame(c, r.channel, c.start, c.start + B(X))
\* channels registered while connected get subscribed
C18_RegisteredWhileConnected(X) ==
  \A r \in ToSet(X.registered) : r.t > 0 =>
     \A c \in ConnAt(X, r.t) : c.end >= r.t + B(X) => HasFrame(c, r.channel, r.t, r.t + B(X))
\* a channel flagged for re-subscription is re-subscribed on the live connection, without waiting for a reconnect
\* (an expired listen key is replaced: subscribing the expired stream name again does not re-subscribe the channel)
HasFreshFrame(c, ch, stale, from, to) ==
  \E f \in ToSet(c.frames) : f.t >= from /\ f.t <= to /\ \E k \in DOMAIN f.channels : f.channels[k] = ch /\ (stale = "" \/ f.raw[k] # stale)
C18_ResubscribeOnLive(X) ==
  \A x \in ToSet(X.resub) : \A c \in ToSet(X.conns) :
     (c.conn = x.conn /\ c.end >= x.t + B(X)) => HasFreshFrame(c, x.channel, x.raw, x.t, x.t + B(X))
\* each channel message produces events only on the source registered for that channel
C18_Routing(X) ==
  /\ \A m \in ToSet(X.data) : \A e \in ToSet(X.events) : e.n = m.n => e.source = m.channel
  /\ \A m \in ToSet(X.data) : Cardinality({k \in DOMAIN X.events : X.events[k].n = m.n}) = 1
  /\ \A e \in ToSet(X.events) : \E m \in ToSet(X.data) : m.n = e.n
\* a listen key is refreshed at least once per keep-alive period for as long as its stream is subscribed
\* the time during which a listen key (raw stream name of a spot_user_data subscription) stays subscribed: from its
\* SUBSCRIBE frame until the connection ends or the channel is subscribed again on it (with a new key)
Window(c, i, k) ==
  LET f == c.frames[i]
      later == {j \in (i + 1)..Len(c.frames) : \E m \in DOMAIN c.frames[j].channels : c.frames[j].channels[m] = "spot_user_data"} IN
  [key |-> f.raw[k], from |-> f.t,
   to |-> IF later = {} THEN c.end ELSE c.frames[CHOOSE m \in later : \A x \in later : m <= x].t]
KeyWindows(X) ==
  UNION {UNION {{Window(c, i, k) : k \in {j \in DOMAIN c.frames[i].channels : c.frames[i].channels[j] = "spot_user_data"}}
                : i \in 1..Len(c.frames)} : c \in ToSet(X.conns)}
C18_KeepAlive(X) ==
  LET P == X.cfg.keepalive_s * 1000 + X.cfg.slack_ms IN
  \A w \in KeyWindows(X) :
     LET calls == {ka.t : ka \in {a \in ToSet(X.keepalive) : a.key = w.key /\ a.t >= w.from /\ a.t <= w.to}} IN
     \A t \in {w.from} \cup calls : (t + P <= w.to) => \E u \in calls : u > t /\ u <= t + P
C18_NoCrash(X) == X.outcome = "returned"

WsClauses == <<"C18_Backoff", "C18_SubscribedAfterConnect", "C18_RegisteredWhileConnected", "C18_ResubscribeOnLive",
               "C18_Routing", "C18_KeepAlive", "C18_NoCrash">>
WsHolds(X, c) == CASE c = "C18_Backoff" -> C18_Backoff(X) [] c = "C18_SubscribedAfterConnect" -> C18_SubscribedAfterConnect(X)
                   [] c = "C18_RegisteredWhileConnected" -> C18_RegisteredWhileConnected(X)
                   [] c = "C18_ResubscribeOnLive" -> C18_ResubscribeOnLive(X) [] c = "C18_Routing" -> C18_Routing(X)
                   [] c = "C18_KeepAlive" -> C18_KeepAlive(X) [] c = "C18_NoCrash" -> C18_NoCrash(X)
WsFailing(X) == {WsClauses[k] : k \in {i \in 1..Len(WsClauses) : ~WsHolds(X, WsClauses[i])}}
================================================================================
