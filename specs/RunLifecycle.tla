------------------------------ MODULE RunLifecycle ------------------------------
(***************************************************************************)
(* EventDispatcher.run() (basana/core/dispatcher.py) with helpers.TaskGroup *)
(* and, for the backtesting dispatcher, logs.backtesting_log_mode:          *)
(*   initialize group -> main + dispatch-loop group -> finally: cancel and  *)
(*   wait the handler pool, finalize every producer (errors swallowed).     *)
(* A scenario (chosen in Init) fixes the dispatcher kind and which producer *)
(* fails where; the exit triggers (sources exhausted / stop() / external    *)
(* cancellation of run()) may fire at any moment they are possible.         *)
(***************************************************************************)
EXTENDS Integers, FiniteSets, Sequences

CONSTANTS NP,          \* number of producers
          GuardEach,   \* TRUE: gather_no_raise guards every finalize() separately (the code); FALSE: one guard around the gather
          FixLogMode   \* TRUE: backtesting_log_mode restores the log record factory in a finally block

P == 1..NP
VARIABLES disp,      \* "bt" | "rt"
          fault,     \* [P -> [init, main, fin]]
          phase,     \* "init" | "main" | "finally" | "finalize" | "done"
          ps,        \* [P -> "new" | "init_run" | "init_done" | "init_failed" | "cancelled" | "main_run" | "main_done" | "main_failed"]
          fin,       \* [P -> number of finalize() calls]
          loop,      \* dispatch loop task: "none" | "run" | "done" | "cancelled"
          stopped,   \* stop() was requested
          exc,       \* exception travelling out of the task group: "none" | "producer" | "cancelled"
          extCancel, \* the caller cancelled run()
          poolCancelled,
          logFactory,\* "orig" | "bt"
          outcome    \* "running" | "returned" | "raised_producer_error" | "raised_cancelled"
vars == <<disp, fault, phase, ps, fin, loop, stopped, exc, extCancel, poolCancelled, logFactory, outcome>>

Faults == [init : {"ok", "raise"}, main : {"return", "raise", "forever"}, fin : {"ok", "raise"}]
Init == /\ disp \in {"bt", "rt"} /\ fault \in [P -> Faults]
        /\ phase = "init" /\ ps = [p \in P |-> "init_run"] /\ fin = [p \in P |-> 0]
        /\ loop = "none" /\ stopped = FALSE /\ exc = "none" /\ extCancel = FALSE /\ poolCancelled = FALSE
        /\ logFactory = IF disp = "bt" THEN "bt" ELSE "orig"        \* the context manager is entered before super().run()
        /\ outcome = "running"

CancelRest(f) == [p \in P |-> IF f[p] \in {"init_run", "main_run"} THEN "cancelled" ELSE f[p]]

(* ---- initialize group ---- *)
InitEnds(p) ==
  /\ phase = "init" /\ ps[p] = "init_run" /\ exc = "none"
  /\ IF fault[p].init = "raise"
     THEN /\ ps' = CancelRest([ps EXCEPT ![p] = "init_failed"])      \* gather raises, __aexit__ cancels the rest
          /\ exc' = "producer" /\ phase' = "finally"
     ELSE /\ ps' = [ps EXCEPT ![p] = "init_done"] /\ UNCHANGED <<exc, phase>>
  /\ UNCHANGED <<disp, fault, fin, loop, stopped, extCancel, poolCancelled, logFactory, outcome>>
StartMain ==
  /\ phase = "init" /\ exc = "none" /\ \A p \in P : ps[p] = "init_done"
  /\ phase' = "main" /\ ps' = [p \in P |-> "main_run"] /\ loop' = "run"
  /\ UNCHANGED <<disp, fault, fin, stopped, exc, extCancel, poolCancelled, logFactory, outcome>>
(* ---- main group ---- *)
MainEnds(p) ==
  /\ phase = "main" /\ ps[p] = "main_run" /\ fault[p].main # "forever"
  /\ IF fault[p].main = "raise"
     THEN /\ ps' = CancelRest([ps EXCEPT ![p] = "main_failed"])
          /\ loop' = IF loop = "run" THEN "cancelled" ELSE loop
          /\ exc' = "producer" /\ phase' = "finally"
     ELSE /\ ps' = [ps EXCEPT ![p] = "main_done"] /\ UNCHANGED <<loop, exc, phase>>
  /\ UNCHANGED <<disp, fault, fin, stopped, extCancel, poolCancelled, logFactory, outcome>>
\* stop(): from the loop itself (sources exhausted, backtesting), from a handler, from a handler error with
\* stop_on_handler_exceptions, or from outside: sets the flag, cancels the group's tasks and the pool
Stop ==
  /\ phase = "main" /\ ~stopped
  /\ stopped' = TRUE /\ poolCancelled' = TRUE
  /\ ps' = CancelRest(ps) /\ loop' = IF loop = "run" THEN "cancelled" ELSE loop
  /\ exc' = IF \E p \in P : ps[p] = "main_run" THEN "cancelled" ELSE IF loop = "run" THEN "cancelled" ELSE exc
  /\ phase' = "finally"
  /\ UNCHANGED <<disp, fault, fin, extCancel, logFactory, outcome>>
\* stop() requested while producers are still being initialised (e.g. a signal): only the flag and the cancellations
StopEarly ==
  /\ phase = "init" /\ ~stopped /\ exc = "none"
  /\ stopped' = TRUE /\ ps' = CancelRest(ps) /\ exc' = "cancelled" /\ phase' = "finally"
  /\ UNCHANGED <<disp, fault, fin, loop, extCancel, poolCancelled, logFactory, outcome>>
AllReturn ==
  /\ phase = "main" /\ loop = "done" /\ \A p \in P : ps[p] = "main_done"
  /\ phase' = "finally"
  /\ UNCHANGED <<disp, fault, ps, fin, loop, stopped, exc, extCancel, poolCancelled, logFactory, outcome>>
ExternalCancel ==
  /\ phase \in {"init", "main"} /\ ~extCancel /\ exc = "none"
  /\ extCancel' = TRUE /\ exc' = "cancelled" /\ ps' = CancelRest(ps)
  /\ loop' = IF loop = "run" THEN "cancelled" ELSE loop
  /\ phase' = "finally"
  /\ UNCHANGED <<disp, fault, fin, stopped, poolCancelled, logFactory, outcome>>
(* ---- finally ---- *)
Finally ==
  /\ phase = "finally"
  /\ poolCancelled' = TRUE /\ phase' = "finalize"
  /\ UNCHANGED <<disp, fault, ps, fin, loop, stopped, exc, extCancel, logFactory, outcome>>
\* finalize() of every producer runs concurrently and may suspend (closing sessions, sockets):
\* fin[p] = 0 not called, 1 running, 2 returned, 3 raised.  gather_no_raise guards EVERY awaitable (GuardEach): the run goes
\* on only when all of them are over.  With a single guard around one gather (GuardEach = FALSE) the first failure ends the
\* wait while the others are still running -- the design the must-fail configuration rejects.
FinalizeBegin(p) ==
  /\ phase = "finalize" /\ fin[p] = 0
  /\ fin' = [fin EXCEPT ![p] = 1]
  /\ UNCHANGED <<disp, fault, phase, ps, loop, stopped, exc, extCancel, poolCancelled, logFactory, outcome>>
FinalizeEnd(p) ==
  /\ phase = "finalize" /\ fin[p] = 1
  /\ fin' = [fin EXCEPT ![p] = IF fault[p].fin = "raise" THEN 3 ELSE 2]     \* failures are swallowed
  /\ UNCHANGED <<disp, fault, phase, ps, loop, stopped, exc, extCancel, poolCancelled, logFactory, outcome>>
Finish ==
  /\ phase = "finalize"
  /\ IF GuardEach THEN \A p \in P : fin[p] \in {2, 3}
     ELSE (\A p \in P : fin[p] \in {2, 3}) \/ ((\E p \in P : fin[p] = 3) /\ \A p \in P : fin[p] >= 1)
  /\ LET raised == CASE exc = "producer" -> "raised_producer_error"
                     [] exc = "cancelled" -> IF stopped THEN "returned" ELSE "raised_cancelled"
                     [] OTHER -> "returned" IN
     /\ outcome' = raised
     /\ logFactory' = IF disp = "bt" /\ (FixLogMode \/ raised = "returned") THEN "orig" ELSE logFactory
  /\ phase' = "done"
  /\ UNCHANGED <<disp, fault, ps, fin, loop, stopped, exc, extCancel, poolCancelled>>

Next == \/ \E p \in P : InitEnds(p) \/ MainEnds(p) \/ FinalizeBegin(p) \/ FinalizeEnd(p)
        \/ StartMain \/ Stop \/ StopEarly \/ AllReturn \/ ExternalCancel \/ Finally \/ Finish
        \/ (phase = "main" /\ loop = "run" /\ disp = "bt" /\ ~stopped /\ Stop)
Spec == Init /\ [][Next]_vars

Inv_C14_MainAfterAllInit == (\E p \in P : ps[p] \in {"main_run", "main_done", "main_failed"}) => \A q \in P : ps[q] # "init_run" /\ ps[q] # "init_failed" /\ ps[q] # "new"
\* every producer is finalised exactly once, and its finalize() is over when the run ends
Inv_C14_FinalizedOnce == phase = "done" => \A p \in P : fin[p] \in {2, 3}
Inv_C14_Outcome ==
  phase = "done" =>
     /\ outcome \in {"returned", "raised_producer_error", "raised_cancelled"}
     /\ (outcome = "raised_producer_error" => \E p \in P : ps[p] \in {"init_failed", "main_failed"})
     /\ (outcome = "raised_cancelled" => extCancel)
Inv_C14_LogFactoryRestored == phase = "done" => logFactory = "orig"
Inv_C14_PoolCancelledBeforeFinalize == (\E p \in P : fin[p] > 0) => poolCancelled
================================================================================
