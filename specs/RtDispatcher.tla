------------------------------ MODULE RtDispatcher ------------------------------
(***************************************************************************)
(* RealtimeDispatcher._dispatch_loop with helpers.TaskPool:                 *)
(*   each iteration snapshots now, runs _push_scheduled and _push_events    *)
(*   CONCURRENTLY (asyncio.gather), waits for the pool (with a timeout) and *)
(*   when the pool is idle pushes the idle handlers, again concurrently.    *)
(* TaskPool.push blocks while the pool is full; every blocked pusher waits  *)
(* on the same tasks, and _wait_impl removes from the pool every task its   *)
(* own asyncio.wait reported as done.                                       *)
(* One source, abstract time in ticks, handler durations >= 1 tick.         *)
(***************************************************************************)
EXTENDS Integers, Sequences, FiniteSets, TLC

CONSTANTS MaxC, NJobs, NEvents, NIdle, MaxNow,
          FixPool,    \* TRUE: _wait_impl skips tasks already collected by another waiter
          IdleOnAnyDone  \* TRUE (deviation, must fail): run _on_idle() when pool.wait(timeout) reported "something finished" --
                         \* what TaskPool.wait really returns -- instead of asking whether the pool is empty

VARIABLES now,
          queue,     \* events inside the source: sequence of [id, when]
          narrived,  \* events the environment produced so far
          slot,      \* multiplexer prefetch: [id, when] or NoItem
          prev,      \* RealtimeDispatcher._prev_event_dt for the source (-1 = none)
          jobs,      \* scheduled, not yet popped: set of [id, when]
          pool,      \* TaskPool._tasks: set of task ids
          rem,       \* [task id -> ticks of work left]; 0 = done
          kind,      \* [task id -> "ev" | "job" | "idle"]
          ntasks,
          lp,        \* loop pc: "start" | "pushers" | "wait" | "idle" | "sleep"
          t0,        \* the iteration's snapshot of now
          pushers,   \* [name -> [st: "ready"|"blocked"|"done", item, snap]]; names: "sched", "events", "idle1".."idleN"
          deadline,  \* wake-up time of wait(timeout) / sleep
          crashed,
          delivered, \* sequence of [id, when, at, kind]
          reported,  \* ids of events reported as out of order
          idleStartedBusy
vars == <<now, queue, narrived, slot, prev, jobs, pool, rem, kind, ntasks, lp, t0, pushers, deadline, crashed,
          delivered, reported, idleStartedBusy>>

NoItem == [id |-> 0, when |-> 0]
IdleNames == {"idle" \o ToString(k) : k \in 1..NIdle}
Names == {"sched", "events"} \cup IdleNames
Fresh == [st |-> "done", item |-> NoItem, snap |-> {}]

Init == /\ now = 0 /\ queue = <<>> /\ narrived = 0 /\ slot = NoItem /\ prev = 0 - 1
        /\ jobs \in {S \in SUBSET [id : 1..NJobs, when : 0..MaxNow] : Cardinality(S) = NJobs /\ \A a, b \in S : a.id = b.id => a = b}
        /\ pool = {} /\ rem = <<>> /\ kind = <<>> /\ ntasks = 0
        /\ lp = "start" /\ t0 = 0 /\ pushers = [n \in Names |-> Fresh] /\ deadline = 0
        /\ crashed = FALSE /\ delivered = <<>> /\ reported = {} /\ idleStartedBusy = FALSE

Running == {i \in pool : rem[i] > 0}
Done(i) == rem[i] = 0

\* the environment hands an event to the source: stamped in the past, now, or in the future
Arrive ==
  /\ narrived < NEvents /\ ~crashed
  /\ \E w \in {now - 1, now, now + 1} : w >= 0 /\ queue' = Append(queue, [id |-> narrived + 1, when |-> w])
  /\ narrived' = narrived + 1
  /\ UNCHANGED <<now, slot, prev, jobs, pool, rem, kind, ntasks, lp, t0, pushers, deadline, crashed, delivered, reported, idleStartedBusy>>

\* while not stopped: now = utc_now(); gather(_push_scheduled(now), _push_events(now))
IterStart ==
  /\ lp = "start" /\ ~crashed
  /\ t0' = now /\ lp' = "pushers"
  /\ pushers' = [n \in Names |-> IF n \in {"sched", "events"} THEN [st |-> "ready", item |-> NoItem, snap |-> {}] ELSE Fresh]
  /\ UNCHANGED <<now, queue, narrived, slot, prev, jobs, pool, rem, kind, ntasks, deadline, crashed, delivered, reported, idleStartedBusy>>

NewTask(k, d) == /\ ntasks' = ntasks + 1
                 /\ pool' = pool \cup {ntasks + 1}
                 /\ rem' = Append(rem, d) /\ kind' = Append(kind, k)

\* TaskPool.push for pusher n holding `item`: create the task if there is room, otherwise wait on the current tasks
TryPush(n, item, k) ==
  IF Cardinality(pool) >= MaxC
  THEN /\ pushers' = [pushers EXCEPT ![n] = [st |-> "blocked", item |-> item, snap |-> pool]]
       /\ UNCHANGED <<pool, rem, kind, ntasks, delivered, idleStartedBusy>>
  ELSE /\ \E d \in 1..2 : NewTask(k, d)
       /\ delivered' = Append(delivered, [id |-> item.id, when |-> item.when, at |-> now, kind |-> k])
       /\ idleStartedBusy' = (idleStartedBusy \/ (k = "idle" /\ \E i \in pool : kind[i] # "idle" /\ rem[i] > 0))
       /\ pushers' = [pushers EXCEPT ![n] = [st |-> "ready", item |-> NoItem, snap |-> {}]]

\* _push_scheduled: next due job, or done
SchedStep ==
  /\ lp = "pushers" /\ ~crashed /\ pushers["sched"].st = "ready"
  /\ LET due == {j \in jobs : j.when <= t0} IN
     IF due = {} THEN /\ pushers' = [pushers EXCEPT !["sched"].st = "done"]
                      /\ UNCHANGED <<jobs, pool, rem, kind, ntasks, delivered, idleStartedBusy>>
     ELSE LET j == CHOOSE j \in due : \A x \in due : j.when < x.when \/ (j.when = x.when /\ j.id <= x.id) IN
          /\ jobs' = jobs \ {j}
          /\ TryPush("sched", [id |-> j.id, when |-> j.when], "job")
  /\ UNCHANGED <<now, queue, narrived, slot, prev, lp, t0, deadline, crashed, reported>>

\* _push_events: pop_while(t0) with the per-source order filter
EventsStep ==
  /\ lp = "pushers" /\ ~crashed /\ pushers["events"].st = "ready"
  /\ LET s1 == IF slot = NoItem /\ queue # <<>> THEN Head(queue) ELSE slot
         q1 == IF slot = NoItem /\ queue # <<>> THEN Tail(queue) ELSE queue IN
     IF s1 = NoItem \/ s1.when > t0
     THEN /\ slot' = s1 /\ queue' = q1 /\ pushers' = [pushers EXCEPT !["events"].st = "done"]
          /\ UNCHANGED <<prev, pool, rem, kind, ntasks, delivered, reported, idleStartedBusy>>
     ELSE /\ slot' = NoItem /\ queue' = q1
          /\ IF prev >= 0 /\ s1.when < prev
             THEN /\ reported' = reported \cup {s1.id}                     \* on_error(...); continue
                  /\ UNCHANGED <<prev, pool, rem, kind, ntasks, delivered, pushers, idleStartedBusy>>
             ELSE /\ prev' = s1.when /\ TryPush("events", s1, "ev") /\ UNCHANGED reported
  /\ UNCHANGED <<now, narrived, jobs, lp, t0, deadline, crashed>>

\* a blocked pusher's asyncio.wait(FIRST_COMPLETED) returns: it collects every finished task of ITS snapshot
Wake(n) ==
  /\ ~crashed /\ pushers[n].st = "blocked"
  /\ LET done == {i \in pushers[n].snap : Done(i)} IN
     /\ done # {}
     /\ IF ~FixPool /\ ~(done \subseteq pool)
        THEN /\ crashed' = (n \in {"sched", "events"})      \* KeyError; inside _on_idle it is swallowed by no_raise
             /\ pool' = pool \ done
             /\ pushers' = [pushers EXCEPT ![n] = Fresh]
             /\ UNCHANGED <<rem, kind, ntasks, delivered, idleStartedBusy>>
        ELSE /\ crashed' = crashed
             /\ LET p2 == pool \ done IN
                IF Cardinality(p2) >= MaxC
                THEN /\ pool' = p2 /\ pushers' = [pushers EXCEPT ![n].snap = p2]
                     /\ UNCHANGED <<rem, kind, ntasks, delivered, idleStartedBusy>>
                ELSE LET k == IF n = "sched" THEN "job" ELSE IF n = "events" THEN "ev" ELSE "idle" IN
                     /\ \E d \in 1..2 : /\ ntasks' = ntasks + 1 /\ pool' = p2 \cup {ntasks + 1}
                                        /\ rem' = Append(rem, d) /\ kind' = Append(kind, k)
                     /\ delivered' = Append(delivered, [id |-> pushers[n].item.id, when |-> pushers[n].item.when, at |-> now, kind |-> k])
                     /\ idleStartedBusy' = (idleStartedBusy \/ (k = "idle" /\ \E i \in p2 : kind[i] # "idle" /\ rem[i] > 0))
                     /\ pushers' = [pushers EXCEPT ![n] = IF n \in IdleNames THEN Fresh ELSE [st |-> "ready", item |-> NoItem, snap |-> {}]]
  /\ UNCHANGED <<now, queue, narrived, slot, prev, jobs, lp, t0, deadline, reported>>

\* both pushers finished: await pool.wait(timeout)
PushersDone ==
  /\ lp = "pushers" /\ ~crashed /\ pushers["sched"].st = "done" /\ pushers["events"].st = "done"
  /\ IF pool = {} THEN lp' = "idle" /\ UNCHANGED deadline
     ELSE lp' = "wait" /\ deadline' = now + 1
  /\ UNCHANGED <<now, queue, narrived, slot, prev, jobs, pool, rem, kind, ntasks, t0, pushers, crashed, delivered, reported, idleStartedBusy>>
\* wait(timeout) returns: all done, or the timeout expired; finished tasks leave the pool
WaitReturns ==
  /\ lp = "wait" /\ ~crashed /\ (now >= deadline \/ \A i \in pool : Done(i))
  /\ pool' = {i \in pool : ~Done(i)}
  /\ lp' = IF pool' = {} \/ (IdleOnAnyDone /\ \E i \in pool : Done(i)) THEN "idle" ELSE "start"
  /\ UNCHANGED <<now, queue, narrived, slot, prev, jobs, rem, kind, ntasks, t0, pushers, deadline, crashed, delivered, reported, idleStartedBusy>>
\* _on_idle: gather_no_raise(push(idle_handler()) for every idle handler) or sleep(idle_sleep)
OnIdle ==
  /\ lp = "idle" /\ ~crashed
  /\ IF NIdle = 0 THEN /\ lp' = "sleep" /\ deadline' = now + 1 /\ UNCHANGED pushers
     ELSE /\ lp' = "idlepush" /\ UNCHANGED deadline
          /\ pushers' = [n \in Names |-> IF n \in IdleNames THEN [st |-> "ready", item |-> NoItem, snap |-> {}] ELSE pushers[n]]
  /\ UNCHANGED <<now, queue, narrived, slot, prev, jobs, pool, rem, kind, ntasks, t0, crashed, delivered, reported, idleStartedBusy>>
IdlePush(n) ==
  /\ lp = "idlepush" /\ ~crashed /\ n \in IdleNames /\ pushers[n].st = "ready"
  /\ IF Cardinality(pool) >= MaxC
     THEN /\ pushers' = [pushers EXCEPT ![n] = [st |-> "blocked", item |-> NoItem, snap |-> pool]]
          /\ UNCHANGED <<pool, rem, kind, ntasks, delivered, idleStartedBusy>>
     ELSE /\ \E d \in 1..2 : NewTask("idle", d)
          /\ delivered' = Append(delivered, [id |-> 0, when |-> 0, at |-> now, kind |-> "idle"])
          /\ idleStartedBusy' = (idleStartedBusy \/ \E i \in pool : kind[i] # "idle" /\ rem[i] > 0)
          /\ pushers' = [pushers EXCEPT ![n] = Fresh]
  /\ UNCHANGED <<now, queue, narrived, slot, prev, jobs, lp, t0, deadline, crashed, reported>>
IdleDone ==
  /\ lp = "idlepush" /\ ~crashed /\ \A n \in IdleNames : pushers[n].st = "done"
  /\ lp' = "start"
  /\ UNCHANGED <<now, queue, narrived, slot, prev, jobs, pool, rem, kind, ntasks, t0, pushers, deadline, crashed, delivered, reported, idleStartedBusy>>
SleepReturns ==
  /\ lp = "sleep" /\ ~crashed /\ now >= deadline /\ lp' = "start"
  /\ UNCHANGED <<now, queue, narrived, slot, prev, jobs, pool, rem, kind, ntasks, t0, pushers, deadline, crashed, delivered, reported, idleStartedBusy>>
\* time passes only when the loop (and its pushers) cannot take a step: handlers work
LoopCanStep == \/ lp \in {"start", "idle"}
               \/ (lp = "pushers" /\ \E n \in {"sched", "events"} : pushers[n].st = "ready")
               \/ (lp = "pushers" /\ pushers["sched"].st = "done" /\ pushers["events"].st = "done")
               \/ (lp = "idlepush" /\ ((\E n \in IdleNames : pushers[n].st = "ready") \/ (\A n \in IdleNames : pushers[n].st = "done")))
               \/ \E n \in Names : pushers[n].st = "blocked" /\ \E i \in pushers[n].snap : Done(i)
               \/ (lp = "wait" /\ (now >= deadline \/ \A i \in pool : Done(i)))
               \/ (lp = "sleep" /\ now >= deadline)
Tick ==
  /\ ~crashed /\ ~LoopCanStep /\ now < MaxNow
  /\ now' = now + 1
  /\ rem' = [i \in DOMAIN rem |-> IF rem[i] > 0 THEN rem[i] - 1 ELSE 0]
  /\ UNCHANGED <<queue, narrived, slot, prev, jobs, pool, kind, ntasks, lp, t0, pushers, deadline, crashed, delivered, reported, idleStartedBusy>>

Next == Arrive \/ IterStart \/ SchedStep \/ EventsStep \/ PushersDone \/ WaitReturns \/ OnIdle \/ IdleDone \/ SleepReturns \/ Tick
        \/ \E n \in Names : Wake(n) \/ IdlePush(n)
Spec == Init /\ [][Next]_vars

Inv_C14_NoCrash == ~crashed
Inv_C14_BoundedConcurrency == Cardinality(pool) <= MaxC
Inv_C15_NeverEarly == \A k \in 1..Len(delivered) : delivered[k].kind \in {"ev", "job"} => delivered[k].at >= delivered[k].when
Inv_C15_PerSourceOrder ==
  \A a, b \in 1..Len(delivered) : (a < b /\ delivered[a].kind = "ev" /\ delivered[b].kind = "ev") => delivered[a].when <= delivered[b].when
Inv_C15_DropReported == \A k \in 1..Len(delivered) : delivered[k].kind = "ev" => delivered[k].id \notin reported
Inv_C15_IdleOnlyWhenIdle == ~idleStartedBusy
\* liveness (checked without a state constraint on configurations where MaxNow is large enough): every due item is dispatched
Live_C15_EventuallyDispatched == <>[](jobs = {} \/ crashed)
================================================================================
