-------------------------------- MODULE WsTrace --------------------------------
(* Judges recorded websocket client runs with WsProps. *)
EXTENDS Integers, Sequences, FiniteSets, TLC, Json, IOUtils
Traces == ndJsonDeserialize(IOEnv.TRACE_FILE)
VARIABLE tid
WP == INSTANCE WsProps
Init == tid = 1
Next == /\ tid <= Len(Traces)
        /\ PrintT("@@" \o ToJson([id |-> Traces[tid].id, failing |-> WP!WsFailing(Traces[tid])]))
        /\ TLCSet(1, tid) /\ tid' = tid + 1
Spec == Init /\ [][Next]_tid
AllConsumed == TLCGet(1) = Len(Traces)
================================================================================
