--------------------------- MODULE BtDispatcherCore ---------------------------
(***************************************************************************)
(* basana/core/dispatcher.py :: BacktestingDispatcher together with        *)
(* EventMultiplexer, SchedulerQueue and helpers.TaskPool, at the grain of  *)
(* the code's suspension points.                                           *)
(*                                                                         *)
(* The dispatch loop is one asyncio task.  It only yields at               *)
(*   - TaskPool.push() when the pool is full  (wait FIRST_COMPLETED)       *)
(*   - TaskPool.wait()  with a non-empty pool (wait ALL_COMPLETED)         *)
(* so handler tasks run only while the loop is blocked at one of those.    *)
(* One TLA+ action per loop step between suspension points and one per     *)
(* handler segment (handlers are sequences of segments separated by        *)
(* suspension points).  Within a gather stage handlers START in            *)
(* subscription order; after that they may resume in any order (they await *)
(* something external).                                                    *)
(*                                                                         *)
(* D is the configuration record (sources, subscriptions, handler          *)
(* programs, initial jobs, max_concurrent); see harness/eng_dispatcher.py. *)
(***************************************************************************)
EXTENDS Integers, Sequences, FiniteSets, SequencesExt

CONSTANT D
(* D == [ ns    : number of sources, subscribed in the order 1..ns
          evs   : [1..ns -> sequence of event times]          initial content of each source's queue
          hs    : [1..ns -> sequence of handler ids]          per-source handlers in subscription order
          pre, post : sequences of handler ids                front-running / other catch-all handlers
          prog  : [handler or job id -> sequence of segments] a segment is a sequence of effects
          jobs  : sequence of [when, prog]                    jobs scheduled before run(), in insertion order
          maxc  : max_concurrent
          stopOnErr : stop_on_handler_exceptions
          barrier   : TRUE = _dispatch_events pops every due event before pushing any task
          drainMax  : TRUE = the final drain runs jobs up to the maximum scheduled time (not heap[-1]) ]
   effects: [op |-> "push", src |-> s]             push an event with when = now() on source s
            [op |-> "sched", delta |-> d, prog |-> p]   schedule job p at now() + d
            [op |-> "raise"]  [op |-> "stop"]
            [op |-> "match", pair |-> x]           the exchange matches open orders of pair x with this bar
            [op |-> "order", pair |-> x]           a strategy submits an order for pair x *)

Srcs == 1..D.ns
NoEv == [id |-> 0, src |-> 0, when |-> 0]
Max2(a, b) == IF a >= b THEN a ELSE b

(* ---------------------- SchedulerQueue: a binary heap in an array ------- *)
\* heapq.heappush: append, then _siftdown (bubble up) comparing `when` only
RECURSIVE SiftUp(_, _)
SiftUp(h, i) ==
  IF i = 1 THEN h
  ELSE LET p == i \div 2 IN
       IF h[i].when < h[p].when THEN SiftUp([h EXCEPT ![i] = h[p], ![p] = h[i]], p) ELSE h
HeapPush(h, x) == SiftUp(Append(h, x), Len(h) + 1)
\* heapq.heappop: take the last item, put it at the root, _siftup: move the smaller child up until a leaf, then bubble up
RECURSIVE SiftLeaf(_, _, _)
SiftLeaf(h, i, n) ==                      \* moves the hole at i down to a leaf, returns [h, pos]
  LET l == 2 * i  r == 2 * i + 1 IN
  IF l > n THEN [h |-> h, pos |-> i]
  ELSE LET c == IF r <= n /\ ~(h[l].when < h[r].when) THEN r ELSE l IN
       SiftLeaf([h EXCEPT ![i] = h[c]], c, n)
HeapPop(h) ==
  LET n == Len(h)
      lastItem == h[n]
      h1 == SubSeq(h, 1, n - 1) IN
  IF n = 1 THEN [item |-> h[1], h |-> <<>>]
  ELSE LET d  == SiftLeaf([h1 EXCEPT ![1] = h1[1]], 1, n - 1)
           h2 == [d.h EXCEPT ![d.pos] = lastItem]
       IN [item |-> h[1], h |-> SiftUp(h2, d.pos)]
HeapMaxWhen(h) == LET W == {h[i].when : i \in 1..Len(h)} IN CHOOSE m \in W : \A w \in W : w <= m
PeekLast(h) == IF D.drainMax THEN HeapMaxWhen(h) ELSE h[Len(h)].when

(* ---------------------- EventMultiplexer -------------------------------- *)
\* prefetch source s if its slot is empty: [q, slot] after source.pop()
Prefetch(q, slot, s) ==
  IF slot[s] # NoEv \/ q[s] = <<>> THEN [q |-> q, slot |-> slot]
  ELSE [q |-> [q EXCEPT ![s] = Tail(@)], slot |-> [slot EXCEPT ![s] = Head(q[s])]]
RECURSIVE PrefetchAll(_, _, _)
PrefetchAll(q, slot, s) ==
  IF s > D.ns THEN [q |-> q, slot |-> slot]
  ELSE LET r == Prefetch(q, slot, s) IN PrefetchAll(r.q, r.slot, s + 1)
\* peek_next_event_dt: 0 = none
NextDt(slot) == LET W == {slot[s].when : s \in {x \in Srcs : slot[x] # NoEv}} IN
                IF W = {} THEN 0 ELSE CHOOSE m \in W : \A w \in W : m <= w
\* pop(max_dt): scan in subscription order, prefetching empty slots on the way; the oldest <= max_dt, first wins ties
MuxPop(q, slot, maxDt) ==
  LET r == PrefetchAll(q, slot, 1)
      cand == {s \in Srcs : r.slot[s] # NoEv /\ r.slot[s].when <= maxDt}
  IN IF cand = {} THEN [q |-> r.q, slot |-> r.slot, ev |-> NoEv]
     ELSE LET s == CHOOSE s \in cand : \A x \in cand : r.slot[s].when < r.slot[x].when
                                                       \/ (r.slot[s].when = r.slot[x].when /\ s <= x)
          IN [q |-> r.q, slot |-> [r.slot EXCEPT ![s] = NoEv], ev |-> r.slot[s]]

(* ---------------------- tasks ------------------------------------------- *)
(* event task: stages 1 (front-running catch-alls) 2 (the source's handlers) 3 (other catch-alls) 4 = finished   *)
(* job task  : a single coroutine                                                                                  *)
StageHandlers(ev, st) == IF st = 1 THEN D.pre ELSE IF st = 2 THEN D.hs[ev.src] ELSE IF st = 3 THEN D.post ELSE <<>>
RECURSIVE FirstStage(_, _)
FirstStage(ev, st) == IF st >= 4 THEN 4 ELSE IF StageHandlers(ev, st) # <<>> THEN st ELSE FirstStage(ev, st + 1)
NewEventTask(ev) ==
  LET st == FirstStage(ev, 1) IN
  [kind |-> "ev", ev |-> ev, job |-> 0, jid |-> 0, st |-> st,
   pc |-> [i \in 1..Len(StageHandlers(ev, st)) |-> 0]]            \* segments executed per handler of the stage
NewJobTask(j) == [kind |-> "job", ev |-> [id |-> 0, src |-> 0, when |-> j.when], job |-> j.prog, jid |-> j.id, st |-> 2, pc |-> <<0>>]
TaskHandlers(t) == IF t.kind = "job" THEN <<t.job>> ELSE StageHandlers(t.ev, t.st)
TaskDone(t) == t.st = 4
\* handler i of the task's current stage may run its next segment: started in order, then free
Runnable(t, i) ==
  /\ ~TaskDone(t) /\ i \in 1..Len(t.pc)
  /\ t.pc[i] < Len(D.prog[TaskHandlers(t)[i]])
  /\ (t.pc[i] = 0 => \A k \in 1..(i - 1) : t.pc[k] > 0)
StageFinished(t) == \A i \in 1..Len(t.pc) : t.pc[i] = Len(D.prog[TaskHandlers(t)[i]])
================================================================================
