------------------------------- MODULE Exchange -------------------------------
(***************************************************************************)
(* State machine around ExchangeCore: a strategy issues any sequence of    *)
(* requests between bars.  Every public call and every bar is one action.  *)
(* Properties C01 C02 C04 C05 C06 C07 C08 C09 C10 C11 are stated here as    *)
(* invariants over S and action properties over (S, S', call').             *)
(***************************************************************************)
EXTENDS ExchangeProps, TLC, Json

CONSTANTS ReqSet,       \* order requests the strategy may issue
          BarSet,       \* bars [p, o, h, l, c, v] the sources may yield (time is added by the action)
          LoanReqSet,   \* [sym, amount] loan requests
          TimeSteps,    \* by how much time may advance from one bar to the next
          MaxOrders, MaxLoans, MaxBars, MaxCalls,
          EmitAt,       \* behaviour generator: print the history when the behaviour has this many states
          Emit          \* TRUE: carry a history and print every complete behaviour as JSON (behaviour generator)

VARIABLES S,        \* exchange state (ExchangeCore)
          call,     \* last call: [kind, arg, ok, err]
          nbars, ncalls,
          lastT,    \* [pair -> time of its last bar]
          hist      \* behaviour generator only
vars == <<S, call, nbars, ncalls, lastT, hist>>

Init == /\ S = Init0
        /\ call = [kind |-> "init", arg |-> 0, ok |-> TRUE, err |-> ""]
        /\ nbars = 0 /\ ncalls = 0
        /\ lastT = [p \in PairIdx |-> 0]
        /\ hist = <<>>

Record(c, s2) == hist' = IF Emit THEN Append(hist, [call |-> c, obs |-> Obs(s2)]) ELSE hist

DoBar(b, dt) ==
  /\ nbars < MaxBars
  /\ LET t == S.clock + dt IN
     /\ t > lastT[b.p] /\ t > 0
     \* bars sharing a timestamp are dispatched back to back, in subscription (= pair) order, before any handler
     \* of a derived source runs
     /\ (dt = 0 => call.kind = "bar" /\ \A p2 \in PairIdx : lastT[p2] = t => p2 < b.p)
     /\ LET bar == [p |-> b.p, t |-> t, o |-> b.o, h |-> b.h, l |-> b.l, c |-> b.c, v |-> b.v]
            s2  == Bar(S, bar)
            c   == [kind |-> "bar", arg |-> bar, ok |-> TRUE, err |-> ""] IN
        /\ S' = s2 /\ call' = c /\ Record(c, s2)
        /\ lastT' = [lastT EXCEPT ![b.p] = t]
  /\ nbars' = nbars + 1 /\ UNCHANGED ncalls

ApiStep(kind, arg, r) ==
  /\ S.clock > 0                      \* requests are issued from strategy handlers
  /\ ncalls < MaxCalls
  /\ LET c == [kind |-> kind, arg |-> arg, ok |-> r.ok, err |-> r.err] IN
     /\ S' = r.s /\ call' = c /\ Record(c, r.s)
  /\ ncalls' = ncalls + 1 /\ UNCHANGED <<nbars, lastT>>

DoCreateOrder(r) == Len(S.orders) < MaxOrders /\ ApiStep("create_order", r, CreateOrder(S, r))
DoCancelOrder(i) == ApiStep("cancel_order", i, CancelOrder(S, i))
DoCreateLoan(l) ==
  /\ Len(S.loans) < MaxLoans
  /\ LET r == CreateLoanI(S, l.sym, l.amount) IN ApiStep("create_loan", l, r)
DoRepayLoan(j) == ApiStep("repay_loan", j, RepayLoanI(S, j, "repay"))
\* Exchange.get_open_orders(): observable only through the open-list bookkeeping
\* (the harness lists all open orders and then the open orders of every pair: 1 + NPairs traversals)
\* MarginLoans.set_conditions between two requests: the conditions in force change (tighter or looser requirement,
\* other interest terms); loans already granted keep their interest terms
DoSetCond(x, w) ==
  /\ C.lendMode = "margin" /\ C.condAlt[x] # C.cond[x]
  /\ SetCond(S, x, w) # S
  /\ ApiStep("set_cond", [sym |-> x, which |-> w], [ok |-> TRUE, err |-> "", s |-> SetCond(S, x, w)])
DoListOpen == ApiStep("get_open_orders", 1 + NPairs, [ok |-> TRUE, err |-> "", s |-> TouchN(S, 1 + NPairs)])

Next == \/ \E b \in BarSet : \E dt \in TimeSteps \cup {0} : BarValid(b) /\ DoBar(b, dt)
        \/ \E r \in ReqSet : DoCreateOrder(r)
        \/ \E i \in 1..(Len(S.orders) + 1) : DoCancelOrder(i)
        \/ \E l \in LoanReqSet : DoCreateLoan(l)
        \/ \E j \in 1..(Len(S.loans) + 1) : DoRepayLoan(j)
        \/ DoListOpen
        \/ \E x \in Syms : \E w \in {"alt", "base"} : DoSetCond(x, w)
Spec == Init /\ [][Next]_vars

(* ======================= invariants (state) ============================= *)
C01_Conservation            == Inv_C01_Conservation(S)
C02_NonNegative             == Inv_C02_NonNegative(S)
C02_BorrowedIsOpenPrincipal == Inv_C02_BorrowedIsOpenPrincipal(S)
C05_OrderShape              == Inv_C05_OrderShape(S)
C05_OpenListing             == Inv_C05_OpenListing(S)
C06_HoldIsSumOfOpen         == Inv_C06_HoldIsSumOfOpen(S)
C06_NoOpenNoHold            == Inv_C06_NoOpenNoHold(S)
C06_HoldLeBalance           == Inv_C06_HoldLeBalance(S)
C09_TotalFee                == Inv_C09_TotalFee(S)
C11_LoanShape               == Inv_C11_LoanShape(S)
C10_NoLendingNoLoans        == C.lendMode = "none" => Len(S.loans) = 0

C05_Events == Inv_C05_Events(S)

(* ===================== action properties (steps) ======================== *)
(* each is used as  [][P(S, S', call')]_vars                                *)

Act_C07 == Rejected_Unchanged(S, S', call')

Act_C05 == Len(S'.orders) >= Len(S.orders) /\ Lifecycle_OK(S, S')
Act_C05_FillOrKill == FillOrKill_OK(S', call')

Act_C04 == Fills_OK(S, S', call')
Act_C04_OnlyBarsFill == OnlyBarsFill(S, S', call')
Act_C04_Complete == Complete_OK(S, S', call')

Act_C08 == LiquidityCap_OK(S, S', call')

Act_C10 == Granted_OK(S, S', call')

Act_C11 == Len(S'.loans) >= Len(S.loans) /\ LoanClosure_OK(S, S', call')
PAct_C07 == [][Act_C07]_vars
PAct_C05 == [][Act_C05]_vars
PAct_C05_FillOrKill == [][Act_C05_FillOrKill]_vars
PAct_C04 == [][Act_C04]_vars
PAct_C04_OnlyBarsFill == [][Act_C04_OnlyBarsFill]_vars
PAct_C04_Complete == [][Act_C04_Complete]_vars
PAct_C08 == [][Act_C08]_vars
PAct_C10 == [][Act_C10]_vars
PAct_C11 == [][Act_C11]_vars

(* ---- reachability probes (each must be violated) ----------------------- *)
Reach_PartialFill   == ~(\E i \in 1..Len(S.orders) : S.orders[i].filled > 0 /\ S.orders[i].filled < S.orders[i].amount)
Reach_Completed     == ~(\E i \in 1..Len(S.orders) : S.orders[i].state = "completed")
Reach_FillOrKill    == ~(\E i \in 1..Len(S.orders) : S.orders[i].state = "canceled" /\ S.orders[i].type \in {"market", "stop"} /\ call.kind = "bar")
Reach_Rejected      == ~(call.kind = "create_order" /\ ~call.ok)
Reach_LoanRepaid    == ~(\E j \in 1..Len(S.loans) : S.loans[j].cause = "repay")
Reach_AutoRepaid    == ~(\E j \in 1..Len(S.loans) : S.loans[j].cause = "autorepay")
Reach_Rollback      == ~(\E j \in 1..Len(S.loans) : S.loans[j].cause = "rollback")
Reach_FeeCharged    == ~(\E i \in 1..Len(S.orders) : S.orders[i].fee > 0)
Reach_BaseFeeCharged == ~(\E i \in 1..Len(S.orders) : S.orders[i].feeB > 0 /\ S.orders[i].filled < S.orders[i].amount)
Reach_StopHit       == ~(\E i \in 1..Len(S.orders) : S.orders[i].stopHit /\ S.orders[i].filled = 0)
Reach_CondChanged   == ~(S.cond # C.cond /\ \E j \in 1..Len(S.loans) : S.loans[j].open /\ S.loans[j].c # S.cond[S.loans[j].sym])
Reach_MarginRefused == ~(call.kind = "create_loan" /\ ~call.ok /\ call.err = "nebal")

(* ---- behaviour generator ----------------------------------------------- *)
EmitInv == (Emit /\ TLCGet("level") = EmitAt) => PrintT("@@" \o ToJson(hist))
\* hist and the counters are bookkeeping: two behaviours reaching the same ledger are the same state
View == <<S, call, lastT, nbars, ncalls>>
================================================================================
