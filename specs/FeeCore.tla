------------------------------ MODULE FeeCore ------------------------------
(***************************************************************************)
(* fees.Percentage.calculate_fees + OrderManager._round_fees as pure       *)
(* integer operators (quote units), shared by ExchangeCore.tla and the     *)
(* TLAPS proof of C09's closed form (proofs/FeeProof.tla).                  *)
(***************************************************************************)
EXTENDS Integers
FMax2(a, b) == IF a >= b THEN a ELSE b
FCeilDiv(n, d) == IF n <= 0 THEN 0 ELSE (n + d - 1) \div d
\* total fee due for a cumulative traded quote amount tq: max(tq * fN/fD, minimum), ROUND_UP;
\* the minimum is mN/mD quote coins = mN*qs/mD units
FeeDueP(fN, fD, mN, mD, qs, tq) == FMax2(FCeilDiv(tq * fN, fD), FCeilDiv(mN * qs, mD))
\* what is still to be charged given what was charged
FeeDeltaP(fN, fD, mN, mD, qs, tqBefore, charged, dq) == FMax2(0, FeeDueP(fN, fD, mN, mD, qs, tqBefore + dq) - charged)
=============================================================================
