-------------------------------- MODULE WsClient --------------------------------
(***************************************************************************)
(* basana/core/websockets.py :: WebSocketClient.main() and its three        *)
(* cooperating tasks (_msg_loop, _subscribe_loop, _reconnect) against a     *)
(* peer that injects faults, with channel registrations arriving at any     *)
(* time.  The Binance flavour adds listen keys (a subscription first        *)
(* resolves stream names, which may fail) and listenKeyExpired messages     *)
(* (schedule_resubscription).                                               *)
(*                                                                         *)
(* Variables mirror the fields of the code:                                *)
(*   registered = _event_sources.keys()   pending = _pending_subscriptions  *)
(*   subReq / recReq = _subscribe_request / _reconnect_request             *)
(* One action per step between awaits of each task.                         *)
(***************************************************************************)
EXTENDS Integers, FiniteSets, Sequences

CONSTANTS Channels,        \* channels that may be registered
          InitRegistered,  \* registered before main() starts
          MaxFaults,       \* how many faults the peer may inject in a behaviour (then it stays quiet)
          MaxConns,        \* bound on connection attempts (state constraint of the bounded model)
          Backoff,         \* backoff_secs in ticks
          MaxNow,
          ResubWakes       \* TRUE: schedule_resubscription also sets the subscribe flag

VARIABLES now, lastConnect, attempts,     \* clock, time of the last connection attempt (-Backoff = never), attempt times
          mainPc,       \* "backoff" | "connect" | "up" | "teardown"
          wsOpen,       \* the websocket of the current connection is open (not ws_cli.closed)
          epoch,
          registered, pending, subReq, recReq,
          msgT, subT, recT,   \* task states: msg "run"|"done"|"failed"; sub "wait"|"swap"|"done"|"failed"; rec "wait"|"done"
          inflight,     \* channels taken out of pending by the subscribe loop, not sent yet
          subscribedOn, \* channels the peer has a SUBSCRIBE for on the current connection
          faults,
          routed,       \* history: pairs <<channel of the message, channel whose source got the event>>
          everPendingOnLive   \* bookkeeping for the response property
vars == <<now, lastConnect, attempts, mainPc, wsOpen, epoch, registered, pending, subReq, recReq, msgT, subT, recT,
          inflight, subscribedOn, faults, routed, everPendingOnLive>>

Init == /\ now = 0 /\ lastConnect = 0 - Backoff /\ attempts = <<>> /\ mainPc = "backoff" /\ wsOpen = FALSE /\ epoch = 0
        /\ registered = InitRegistered /\ pending = InitRegistered /\ subReq = (InitRegistered # {}) /\ recReq = FALSE
        /\ msgT = "done" /\ subT = "done" /\ recT = "done" /\ inflight = {} /\ subscribedOn = {} /\ faults = 0
        /\ routed = {} /\ everPendingOnLive = {}

Up == mainPc = "up"
Fault == faults < MaxFaults /\ faults' = faults + 1

(* ------------------------------ main() ---------------------------------- *)
\* backoff: sleep until backoff_secs have passed since the last attempt
BackoffDone ==
  /\ mainPc = "backoff" /\ now - lastConnect >= Backoff
  /\ mainPc' = "connect"
  /\ UNCHANGED <<now, lastConnect, attempts, wsOpen, epoch, registered, pending, subReq, recReq, msgT, subT, recT, inflight,
                 subscribedOn, faults, routed, everPendingOnLive>>
ConnectOk ==
  /\ mainPc = "connect" /\ Len(attempts) < MaxConns
  /\ lastConnect' = now /\ attempts' = Append(attempts, now)
  /\ mainPc' = "up" /\ wsOpen' = TRUE /\ epoch' = epoch + 1
  /\ recReq' = FALSE                                   \* self._reconnect_request.clear()
  /\ pending' = pending \cup registered                \* connect to all channels
  /\ subReq' = TRUE
  /\ msgT' = "run" /\ subT' = "wait" /\ recT' = "wait" /\ inflight' = {} /\ subscribedOn' = {}
  /\ UNCHANGED <<now, registered, faults, routed, everPendingOnLive>>
ConnectRefused ==          \* ws_connect raises: on_error, back to the top of the loop
  /\ mainPc = "connect" /\ Len(attempts) < MaxConns /\ Fault
  /\ lastConnect' = now /\ attempts' = Append(attempts, now) /\ mainPc' = "backoff"
  /\ UNCHANGED <<now, wsOpen, epoch, registered, pending, subReq, recReq, msgT, subT, recT, inflight, subscribedOn, routed,
                 everPendingOnLive>>
\* the task group is left when all three tasks are done, or as soon as one failed (the others are cancelled)
Teardown ==
  /\ Up
  /\ \/ (msgT = "done" /\ subT = "done" /\ recT = "done")
     \/ msgT = "failed" \/ subT = "failed"
  /\ mainPc' = "backoff" /\ wsOpen' = FALSE /\ msgT' = "done" /\ subT' = "done" /\ recT' = "done"
  /\ inflight' = {} /\ subscribedOn' = {}
  /\ UNCHANGED <<now, lastConnect, attempts, epoch, registered, pending, subReq, recReq, faults, routed, everPendingOnLive>>

(* --------------------------- _subscribe_loop ---------------------------- *)
\* await self._subscribe_request.wait(); clear(); swap the pending set out
SubWake ==
  /\ Up /\ subT = "wait" /\ subReq
  /\ subReq' = FALSE
  /\ IF ~wsOpen THEN subT' = "done" /\ UNCHANGED <<pending, inflight>>
     ELSE IF pending = {} THEN subT' = "wait" /\ UNCHANGED <<pending, inflight>>
     ELSE subT' = "swap" /\ inflight' = pending /\ pending' = {}
  /\ UNCHANGED <<now, lastConnect, attempts, mainPc, wsOpen, epoch, registered, recReq, msgT, recT, subscribedOn, faults,
                 routed, everPendingOnLive>>
\* subscribe_to_channels: (resolve the stream names,) send SUBSCRIBE
SubSend ==
  /\ Up /\ subT = "swap"
  /\ IF wsOpen THEN /\ subscribedOn' = subscribedOn \cup inflight /\ subT' = "wait"
               ELSE /\ subT' = "failed" /\ UNCHANGED subscribedOn      \* send on a closing transport raises
  /\ inflight' = {}
  /\ UNCHANGED <<now, lastConnect, attempts, mainPc, wsOpen, epoch, registered, pending, subReq, recReq, msgT, recT, faults,
                 routed, everPendingOnLive>>
\* failing listen-key creation / token request: the task fails, the connection is torn down
SubFail ==
  /\ Up /\ subT = "swap" /\ Fault
  /\ subT' = "failed" /\ inflight' = {}
  /\ UNCHANGED <<now, lastConnect, attempts, mainPc, wsOpen, epoch, registered, pending, subReq, recReq, msgT, recT,
                 subscribedOn, routed, everPendingOnLive>>
\* the loop notices the closed websocket
SubExit ==
  /\ Up /\ subT = "wait" /\ ~wsOpen /\ subReq
  /\ subT' = "done" /\ subReq' = FALSE
  /\ UNCHANGED <<now, lastConnect, attempts, mainPc, wsOpen, epoch, registered, pending, recReq, msgT, recT, inflight,
                 subscribedOn, faults, routed, everPendingOnLive>>

(* ------------------------------ _reconnect ------------------------------ *)
RecWake ==
  /\ Up /\ recT = "wait" /\ recReq
  /\ recReq' = FALSE /\ recT' = "done" /\ wsOpen' = FALSE      \* if not ws_cli.closed: await ws_cli.close()
  /\ UNCHANGED <<now, lastConnect, attempts, mainPc, epoch, registered, pending, subReq, msgT, subT, inflight, subscribedOn,
                 faults, routed, everPendingOnLive>>

(* ------------------------------- _msg_loop ------------------------------ *)
\* the iterator ends because the websocket was closed (by the peer, by _reconnect, by a drop)
MsgEnds ==
  /\ Up /\ msgT = "run" /\ ~wsOpen
  /\ msgT' = "done" /\ subReq' = TRUE /\ recReq' = TRUE
  /\ UNCHANGED <<now, lastConnect, attempts, mainPc, wsOpen, epoch, registered, pending, subT, recT, inflight, subscribedOn,
                 faults, routed, everPendingOnLive>>
\* peer: clean close / abrupt drop
PeerCloses ==
  /\ Up /\ wsOpen /\ Fault
  /\ wsOpen' = FALSE
  /\ UNCHANGED <<now, lastConnect, attempts, mainPc, epoch, registered, pending, subReq, recReq, msgT, subT, recT, inflight,
                 subscribedOn, routed, everPendingOnLive>>
\* peer: a frame that is not JSON -> json.loads raises inside the message loop task
PeerGarbage ==
  /\ Up /\ wsOpen /\ msgT = "run" /\ Fault
  /\ msgT' = "failed"
  /\ UNCHANGED <<now, lastConnect, attempts, mainPc, wsOpen, epoch, registered, pending, subReq, recReq, subT, recT, inflight,
                 subscribedOn, routed, everPendingOnLive>>
\* peer: server-requested reconnect (bts:request_reconnect) -> schedule_reconnection()
PeerRequestsReconnect ==
  /\ Up /\ wsOpen /\ msgT = "run" /\ Fault
  /\ recReq' = TRUE
  /\ UNCHANGED <<now, lastConnect, attempts, mainPc, wsOpen, epoch, registered, pending, subReq, msgT, subT, recT, inflight,
                 subscribedOn, routed, everPendingOnLive>>
\* peer: error reply / unknown message: reported, nothing else
PeerError ==
  /\ Up /\ wsOpen /\ msgT = "run" /\ Fault
  /\ UNCHANGED <<now, lastConnect, attempts, mainPc, wsOpen, epoch, registered, pending, subReq, recReq, msgT, subT, recT,
                 inflight, subscribedOn, routed, everPendingOnLive>>
\* peer: a message for a subscribed channel -> an event on that channel's source, only there
PeerData(c) ==
  /\ Up /\ wsOpen /\ msgT = "run" /\ c \in subscribedOn
  /\ routed' = routed \cup {<<c, c>>}
  /\ UNCHANGED <<now, lastConnect, attempts, mainPc, wsOpen, epoch, registered, pending, subReq, recReq, msgT, subT, recT,
                 inflight, subscribedOn, faults, everPendingOnLive>>
\* peer: listenKeyExpired for c -> schedule_resubscription([c])
PeerKeyExpired(c) ==
  /\ Up /\ wsOpen /\ msgT = "run" /\ c \in subscribedOn /\ Fault
  /\ pending' = pending \cup {c}
  /\ subReq' = (subReq \/ ResubWakes)
  /\ subscribedOn' = subscribedOn \ {c}                 \* the stream of the expired key is dead
  /\ everPendingOnLive' = everPendingOnLive \cup {c}
  /\ UNCHANGED <<now, lastConnect, attempts, mainPc, wsOpen, epoch, registered, recReq, msgT, subT, recT, inflight, routed>>

(* --------------------------- the application ---------------------------- *)
Register(c) ==
  /\ c \notin registered
  /\ registered' = registered \cup {c} /\ pending' = pending \cup {c} /\ subReq' = TRUE
  /\ UNCHANGED <<now, lastConnect, attempts, mainPc, wsOpen, epoch, recReq, msgT, subT, recT, inflight, subscribedOn, faults,
                 routed, everPendingOnLive>>
Tick == /\ now < MaxNow /\ now' = now + 1
        /\ UNCHANGED <<lastConnect, attempts, mainPc, wsOpen, epoch, registered, pending, subReq, recReq, msgT, subT, recT,
                       inflight, subscribedOn, faults, routed, everPendingOnLive>>

Client == BackoffDone \/ ConnectOk \/ Teardown \/ SubWake \/ SubSend \/ SubExit \/ RecWake \/ MsgEnds
Peer   == ConnectRefused \/ SubFail \/ PeerCloses \/ PeerGarbage \/ PeerRequestsReconnect \/ PeerError
          \/ \E c \in Channels : PeerData(c) \/ PeerKeyExpired(c)
Next == Client \/ Peer \/ Tick \/ \E c \in Channels : Register(c)
Fairness == /\ WF_vars(BackoffDone) /\ WF_vars(ConnectOk) /\ WF_vars(Teardown) /\ WF_vars(SubWake) /\ WF_vars(SubSend)
            /\ WF_vars(SubExit) /\ WF_vars(RecWake) /\ WF_vars(MsgEnds) /\ WF_vars(Tick)
Spec == Init /\ [][Next]_vars /\ Fairness

(* ------------------------------ properties ------------------------------ *)
Inv_C18_Routing == \A r \in routed : r[1] = r[2]
Inv_C18_Backoff == \A i \in 1..(Len(attempts) - 1) : attempts[i + 1] - attempts[i] >= Backoff
\* nothing is subscribed that was not registered, and pending channels are registered
Inv_C18_OnlyRegistered == subscribedOn \subseteq registered /\ pending \subseteq registered /\ inflight \subseteq registered
\* a channel waiting to be subscribed on a live connection always has the wake-up flag set (or is being handled)
Inv_C18_PendingHasWakeup == (Up /\ wsOpen /\ pending # {} /\ subT = "wait") => subReq
\* liveness: while the connection stays up, a pending channel gets subscribed on it
Live_C18_ResubscribeOnLive == \A c \in Channels : (c \in pending /\ Up /\ wsOpen) ~> (c \in subscribedOn \/ ~(Up /\ wsOpen))
\* liveness: once the peer is quiet every registered channel ends up subscribed on the live connection
\* (in the bounded model: unless the attempt / time budget ran out)
Live_C18_Converges == \A c \in Channels : <>[](c \in registered => (c \in subscribedOn \/ Len(attempts) >= MaxConns \/ now >= MaxNow))
================================================================================
