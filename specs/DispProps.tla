------------------------------- MODULE DispProps -------------------------------
(***************************************************************************)
(* Properties C12, C13, C03 and the bounded-concurrency / fault-isolation  *)
(* clauses of C14 for the backtesting dispatcher, stated over the          *)
(* observable history of a run so that the same text judges behaviours of  *)
(* BtDispatcher.tla (model checking) and logs recorded from the real       *)
(* dispatcher (trace validation).                                          *)
(*                                                                         *)
(* A history H is a record                                                 *)
(*   log    : sequence of executed handler / job segments                  *)
(*            [kind "ev"|"job", ev (event id), job (job id), src, when,     *)
(*             h (handler or job program), stage 1|2|3, seg, clock]         *)
(*   events : every event that exists (initial and pushed) [id, src, when]  *)
(*   sched  : every job ever scheduled [id, when, at] (at = length of the   *)
(*            log when it was scheduled, 0 = before the run)                *)
(*   orders : abstract exchange [pair, at, filledAt]                        *)
(*   clean  : the run ended because sources were exhausted                  *)
(***************************************************************************)
EXTENDS Integers, Sequences, FiniteSets

CONSTANT D

Idx(log) == 1..Len(log)
ProgLen(h) == Len(D.prog[h])
StageHs(src, st) == IF st = 1 THEN D.pre ELSE IF st = 2 THEN D.hs[src] ELSE D.post
Raises(h, seg) == \E k \in 1..Len(D.prog[h][seg]) : D.prog[h][seg][k].op = "raise"
\* the entry at which handler h of (task, stage) ended: its last segment or a raising one
Ends(e) == e.seg = ProgLen(e.h) \/ Raises(e.h, e.seg)
TaskOf(e) == IF e.kind = "ev" THEN <<"ev", e.ev>> ELSE <<"job", e.job>>

\* ---- C12 -------------------------------------------------------------------------------------------------
C12_GlobalOrder(H) ==
  \A a, b \in Idx(H.log) : (a < b /\ H.log[a].kind = "ev" /\ H.log[b].kind = "ev") => H.log[a].when <= H.log[b].when
C12_ClockEqualsEventTime(H) == \A a \in Idx(H.log) : H.log[a].kind = "ev" => H.log[a].clock = H.log[a].when
C12_ClockMonotone(H) == \A a \in Idx(H.log) : a > 1 => H.log[a - 1].clock <= H.log[a].clock
\* stages: front-runners completed before the source's handlers start, those start in subscription order, the
\* other catch-alls start after they completed
PosIn(seq, x) == CHOOSE k \in 1..Len(seq) : seq[k] = x
C12_StageOrder(H) ==
  /\ \A a, b \in Idx(H.log) :
       (a < b /\ H.log[a].kind = "ev" /\ H.log[b].kind = "ev" /\ H.log[a].ev = H.log[b].ev)
          => H.log[a].stage <= H.log[b].stage
  /\ \A a, b \in Idx(H.log) :
       (a < b /\ H.log[a].kind = "ev" /\ H.log[b].kind = "ev" /\ H.log[a].ev = H.log[b].ev
        /\ H.log[a].stage = H.log[b].stage /\ H.log[a].seg = 1 /\ H.log[b].seg = 1)
          => PosIn(StageHs(H.log[a].src, H.log[a].stage), H.log[a].h) < PosIn(StageHs(H.log[b].src, H.log[b].stage), H.log[b].h)
  /\ \A a \in Idx(H.log) : H.log[a].kind = "ev" =>
       \E k \in 1..Len(StageHs(H.log[a].src, H.log[a].stage)) : StageHs(H.log[a].src, H.log[a].stage)[k] = H.log[a].h
\* at most once always; exactly once when the run ended because the sources were exhausted
Deliveries(H, ev, st, h) == {a \in Idx(H.log) : H.log[a].kind = "ev" /\ H.log[a].ev = ev /\ H.log[a].stage = st
                                                 /\ H.log[a].h = h /\ H.log[a].seg = 1}
C12_AtMostOnce(H) ==
  \A a, b \in Idx(H.log) :
     (a # b /\ H.log[a].kind = "ev" /\ H.log[b].kind = "ev" /\ H.log[a].ev = H.log[b].ev /\ H.log[a].stage = H.log[b].stage
      /\ H.log[a].h = H.log[b].h) => H.log[a].seg # H.log[b].seg
C12_ExactlyOnce(H) ==
  H.clean => \A e \in H.events : \A st \in 1..3 : \A k \in 1..Len(StageHs(e.src, st)) :
                Cardinality(Deliveries(H, e.id, st, StageHs(e.src, st)[k])) = 1
C12_KnownEventsOnly(H) ==
  \A a \in Idx(H.log) : H.log[a].kind = "ev" =>
     \E e \in H.events : e.id = H.log[a].ev /\ e.src = H.log[a].src /\ e.when = H.log[a].when

\* ---- C13 -------------------------------------------------------------------------------------------------
JobStarts(H) == {a \in Idx(H.log) : H.log[a].kind = "job" /\ H.log[a].seg = 1}
C13_NotEarly(H) == \A a \in Idx(H.log) : H.log[a].kind = "job" => H.log[a].clock >= H.log[a].when
C13_AtMostOnce(H) == \A a, b \in JobStarts(H) : a # b => H.log[a].job # H.log[b].job
\* a job scheduled for a time that had already passed when it was scheduled ("late") can only run as soon as possible: the
\* ordering claims are about jobs that were scheduled for the present or the future
Late(H, a) == \E j \in H.sched : j.id = H.log[a].job /\ j.late
C13_Ordered(H) ==
  /\ \A a, b \in JobStarts(H) : (a < b /\ ~Late(H, a) /\ ~Late(H, b)) => H.log[a].when <= H.log[b].when
  \* after all events with an earlier time, before any event with a later time
  /\ \A a, b \in Idx(H.log) :
       /\ (a < b /\ H.log[a].kind = "job" /\ H.log[b].kind = "ev") => H.log[a].when <= H.log[b].when
       /\ (a < b /\ H.log[a].kind = "ev" /\ H.log[b].kind = "job" /\ H.log[b].seg = 1 /\ ~Late(H, b)) => H.log[a].when <= H.log[b].when
LastEventIdx(H) == LET E == {a \in Idx(H.log) : H.log[a].kind = "ev"} IN
                   IF E = {} THEN 0 ELSE CHOOSE m \in E : \A x \in E : x <= m
\* every job scheduled no later than the handling of the last event ran (exactly once, see AtMostOnce)
C13_AllRan(H) ==
  H.clean => \A j \in H.sched : j.at <= LastEventIdx(H) => \E a \in JobStarts(H) : H.log[a].job = j.id
C13_KnownJobsOnly(H) == \A a \in JobStarts(H) : \E j \in H.sched : j.id = H.log[a].job /\ j.when = H.log[a].when

\* ---- C14 (bounded concurrency): events and jobs in flight at any point of the history ---------------------
\* a task is in flight from its first executed segment until the last handler of its last non-empty stage ended
LastStage(src) == IF D.post # <<>> THEN 3 ELSE IF D.hs[src] # <<>> THEN 2 ELSE 1
Finished(H, t, upto) ==
  LET es == {a \in 1..upto : TaskOf(H.log[a]) = t} IN
  IF t[1] = "job" THEN \E a \in es : Ends(H.log[a])
  ELSE \E a0 \in es : LET src == H.log[a0].src  st == LastStage(src) IN
        \A k \in 1..Len(StageHs(src, st)) : \E a \in es : H.log[a].stage = st /\ H.log[a].h = StageHs(src, st)[k] /\ Ends(H.log[a])
InFlight(H, n) == {t \in {TaskOf(H.log[a]) : a \in 1..n} : ~Finished(H, t, n)}
C14_BoundedConcurrency(H) == \A n \in Idx(H.log) : Cardinality(InFlight(H, n)) <= D.maxc

\* ---- C03 -------------------------------------------------------------------------------------------------
C03_NoLookAhead(H) == \A k \in DOMAIN H.orders : H.orders[k].filledAt # 0 => H.orders[k].filledAt > H.orders[k].at

AllClauses == <<"C12_GlobalOrder", "C12_ClockEqualsEventTime", "C12_ClockMonotone", "C12_StageOrder", "C12_AtMostOnce",
                "C12_ExactlyOnce", "C12_KnownEventsOnly", "C13_NotEarly", "C13_AtMostOnce", "C13_Ordered", "C13_AllRan",
                "C13_KnownJobsOnly", "C14_BoundedConcurrency", "C03_NoLookAhead">>
Holds(H, c) ==
  CASE c = "C12_GlobalOrder" -> C12_GlobalOrder(H)
    [] c = "C12_ClockEqualsEventTime" -> C12_ClockEqualsEventTime(H)
    [] c = "C12_ClockMonotone" -> C12_ClockMonotone(H)
    [] c = "C12_StageOrder" -> C12_StageOrder(H)
    [] c = "C12_AtMostOnce" -> C12_AtMostOnce(H)
    [] c = "C12_ExactlyOnce" -> C12_ExactlyOnce(H)
    [] c = "C12_KnownEventsOnly" -> C12_KnownEventsOnly(H)
    [] c = "C13_NotEarly" -> C13_NotEarly(H)
    [] c = "C13_AtMostOnce" -> C13_AtMostOnce(H)
    [] c = "C13_Ordered" -> C13_Ordered(H)
    [] c = "C13_AllRan" -> C13_AllRan(H)
    [] c = "C13_KnownJobsOnly" -> C13_KnownJobsOnly(H)
    [] c = "C14_BoundedConcurrency" -> C14_BoundedConcurrency(H)
    [] c = "C03_NoLookAhead" -> C03_NoLookAhead(H)
Failing(H) == {AllClauses[k] : k \in {i \in 1..Len(AllClauses) : ~Holds(H, AllClauses[i])}}
================================================================================
