-------------------------- MODULE TokenBucketProof --------------------------
(***************************************************************************)
(* Unbounded argument for C20's window bound on the limiter model          *)
(* (TokenBucketCore.Consume), for ALL parameters, times and histories.     *)
(*                                                                         *)
(* Instead of the whole call history, the state remembers ONE reference    *)
(* call chosen nondeterministically (ref = its send time scaled by TppNum, *)
(* cnt = calls since, inclusive).  Because the choice is arbitrary, an     *)
(* invariant about (ref, last call) is the window bound for every pair of  *)
(* calls i <= j of every history.                                          *)
(***************************************************************************)
EXTENDS TokenBucketCore, TLAPS

ASSUME Params == /\ TppNum \in Nat \ {0} /\ TppDen \in Nat \ {0}
                 /\ Period \in Nat \ {0} /\ InitTok \in Nat

VARIABLES now, st, ref, cnt
vars == <<now, st, ref, cnt>>

Init == now = 0 /\ st = TBInit /\ ref = 0 - 1 /\ cnt = 0
Tick == now' = now + 1 /\ UNCHANGED <<st, ref, cnt>>
Arrive ==
  LET r == Consume(st, now) IN
  /\ st' = r.st
  /\ \/ ref = 0 - 1 /\ ref' = 0 - 1 /\ cnt' = 0                         \* not (yet) the reference call
     \/ ref = 0 - 1 /\ ref' = now * TppNum + r.waitN /\ cnt' = 1        \* this call becomes the reference
     \/ ref # 0 - 1 /\ ref' = ref /\ cnt' = cnt + 1
  /\ UNCHANGED now
Next == Tick \/ Arrive
Spec == Init /\ [][Next]_vars

\* send time (scaled by TppNum) of the last call: its arrival plus its wait
SendLast == st.last * TppNum + (IF st.tok >= 0 THEN 0 ELSE 0 - st.tok)

TypeOK == /\ now \in Nat /\ st \in [tok : Int, last : Nat] /\ st.last <= now
          /\ ref \in Int /\ cnt \in Nat
IndInv == /\ TypeOK
          /\ ref # 0 - 1 => /\ cnt >= 1
                            /\ cnt * K <= CapStmtS + K + st.last * TppNum - st.tok - ref

\* the statement's bound for the pair (reference call, last call)
WindowPair == ref # 0 - 1 => cnt * K <= CapStmtS + (SendLast - ref) + K

LEMMA MulNat == \A x, y \in Nat : x * y \in Nat
  OBVIOUS
LEMMA MulPos == \A x, y \in Nat \ {0} : x * y \in Nat \ {0}
  OBVIOUS
LEMMA MulInt == \A x, y \in Int : x * y \in Int
  OBVIOUS
LEMMA Distr == \A x, y, z \in Int : (x - y) * z = x * z - y * z
  OBVIOUS

LEMMA KPos == K \in Nat \ {0} /\ CapS \in Nat /\ CapStmtS \in Nat /\ CapStmtS >= CapS
<1>1 K \in Nat \ {0}
  BY Params, MulPos DEF K
<1>2 CapS \in Nat
  BY Params, MulNat DEF CapS
<1>3 InitTok * K \in Nat
  BY Params, <1>1, MulNat
<1>4 CapStmtS \in Nat /\ CapStmtS >= CapS
  BY <1>2, <1>3 DEF CapStmtS, Max2
<1> QED BY <1>1, <1>2, <1>4

LEMMA InitOK == Init => IndInv
  BY Params, KPos DEF Init, IndInv, TypeOK, TBInit, K

LEMMA StepOK == IndInv /\ [Next]_vars => IndInv'
<1> SUFFICES ASSUME IndInv, [Next]_vars PROVE IndInv'
  OBVIOUS
<1> USE Params, KPos
<1>1 CASE Tick
  BY <1>1 DEF Tick, IndInv, TypeOK
<1>2 CASE UNCHANGED vars
  BY <1>2 DEF vars, IndInv, TypeOK
<1>3 CASE Arrive
  <2> DEFINE a == Refilled(st, now)
  <2> DEFINE after == a - K
  <2>1 /\ st.tok \in Int /\ st.last \in Nat /\ now \in Nat /\ st.last <= now
    BY DEF IndInv, TypeOK
  <2>2 /\ (now - st.last) * TppNum = now * TppNum - st.last * TppNum
       /\ now * TppNum \in Nat /\ st.last * TppNum \in Nat
    BY <2>1, Distr, MulNat
  <2>3 /\ a \in Int /\ a <= st.tok + now * TppNum - st.last * TppNum /\ a <= CapS
    BY <2>1, <2>2 DEF Refilled, Min2
  <2>4 st' = [tok |-> after, last |-> now]
    BY <1>3 DEF Arrive, Consume
  <2>5 TypeOK'
    BY <1>3, <2>1, <2>3, <2>4 DEF Arrive, TypeOK, IndInv, Consume
  <2>6 Consume(st, now).waitN = IF after >= 0 THEN 0 ELSE 0 - after
    BY <2>3 DEF Consume
  <2>7 ASSUME ref' # 0 - 1 PROVE cnt' >= 1 /\ cnt' * K <= CapStmtS + K + st'.last * TppNum - st'.tok - ref'
    <3>1 CASE ref = 0 - 1 /\ ref' = now * TppNum + Consume(st, now).waitN /\ cnt' = 1
      <4>1 st'.last * TppNum - st'.tok - ref' = 0 - (IF after >= 0 THEN after ELSE 0)
        BY <3>1, <2>4, <2>6, <2>3, <2>1
      <4>2 (IF after >= 0 THEN after ELSE 0) <= CapStmtS
        BY <2>3
      <4>3 /\ st'.last * TppNum \in Nat /\ st'.tok \in Int /\ ref' \in Int /\ after \in Int /\ 1 * K = K
        BY <3>1, <2>4, <2>6, <2>3, <2>2, <2>1
      <4> QED BY <3>1, <4>1, <4>2, <4>3
    <3>2 CASE ref # 0 - 1 /\ ref' = ref /\ cnt' = cnt + 1
      <4>1 cnt >= 1 /\ cnt * K <= CapStmtS + K + st.last * TppNum - st.tok - ref
        BY <3>2 DEF IndInv
      <4>2 (cnt + 1) * K = cnt * K + K
        BY DEF IndInv, TypeOK
      <4>3 st'.last * TppNum - st'.tok = now * TppNum - after
        BY <2>4
      <4>4 0 - after >= K - st.tok - now * TppNum + st.last * TppNum
        BY <2>1, <2>2, <2>3
      <4>5a cnt \in Nat /\ ref \in Int
        BY DEF IndInv, TypeOK
      <4>5b cnt * K \in Nat
        BY <4>5a, MulNat
      <4>5 cnt * K \in Nat /\ now * TppNum \in Nat /\ st.last * TppNum \in Nat /\ ref \in Int /\ cnt \in Nat
        BY <2>2, <4>5a, <4>5b
      <4> QED BY <3>2, <4>1, <4>2, <4>3, <4>4, <4>5, <2>1, <2>3
    <3>3 CASE ref = 0 - 1 /\ ref' = 0 - 1 /\ cnt' = 0
      BY <3>3, <2>7
    <3> QED BY <1>3, <3>1, <3>2, <3>3 DEF Arrive
  <2> QED BY <2>5, <2>7 DEF IndInv
<1> QED BY <1>1, <1>2, <1>3 DEF Next

THEOREM Safety == Spec => []IndInv
  BY InitOK, StepOK, PTL DEF Spec

THEOREM Bound == IndInv => WindowPair
  BY Params, KPos DEF IndInv, TypeOK, WindowPair, SendLast

=============================================================================
