----------------------------- MODULE FeeProof -----------------------------
(***************************************************************************)
(* Unbounded argument for C09's closed form on the fee model               *)
(* (FeeCore.FeeDueP / FeeDeltaP, the operators ExchangeCore.tla uses):     *)
(* for ALL fee rates, minimum fees, quote scales and ALL sequences of      *)
(* fills, the fees charged to an order add up to exactly                   *)
(*     max(total traded quote * rate, minimum) rounded up                  *)
(* -- never more (no double charging of the minimum or of rounding), never *)
(* less.  The model order accumulates `tq` (traded quote units) and        *)
(* `charged`; every fill of dq > 0 units charges FeeDeltaP.                 *)
(***************************************************************************)
EXTENDS FeeCore, TLAPS

CONSTANTS fN, fD, mN, mD, qs
ASSUME Params == /\ fN \in Nat /\ fD \in Nat \ {0} /\ mN \in Nat /\ mD \in Nat \ {0} /\ qs \in Nat \ {0}

VARIABLES tq, charged
vars == <<tq, charged>>
Init == tq = 0 /\ charged = 0
Fill(dq) == /\ charged' = charged + FeeDeltaP(fN, fD, mN, mD, qs, tq, charged, dq)
            /\ tq' = tq + dq
Next == \E dq \in Nat \ {0} : Fill(dq)
Spec == Init /\ [][Next]_vars

Due(t) == FeeDueP(fN, fD, mN, mD, qs, t)
\* C09: the closed form
Closed == /\ tq \in Nat /\ charged \in Nat
          /\ (tq = 0 => charged = 0)
          /\ (tq > 0 => charged = Due(tq))

LEMMA MulNat == \A x, y \in Nat : x * y \in Nat
  OBVIOUS
LEMMA MulLeMono == \A d \in Nat : \A x, y \in Int : x <= y => d * x <= d * y
  OBVIOUS
LEMMA MulLtCancel == \A d \in Nat \ {0} : \A x, y \in Int : d * x < d * y => x < y
  <1> SUFFICES ASSUME NEW d \in Nat \ {0}, NEW x \in Int, NEW y \in Int, d * x < d * y, ~(x < y) PROVE FALSE
    OBVIOUS
  <1>1 y <= x OBVIOUS
  <1>2 d * y <= d * x BY <1>1, MulLeMono
  <1>3 d * x \in Int /\ d * y \in Int OBVIOUS
  <1> QED BY <1>2, <1>3
LEMMA DivNat == \A a \in Nat : \A d \in Nat \ {0} : a \div d \in Nat
  OBVIOUS
LEMMA DivChar == \A a \in Nat : \A d \in Nat \ {0} : d * (a \div d) <= a /\ a < d * (a \div d) + d
  OBVIOUS
LEMMA DivMono == \A a, b \in Nat : \A d \in Nat \ {0} : a <= b => a \div d <= b \div d
  <1> SUFFICES ASSUME NEW a \in Nat, NEW b \in Nat, NEW d \in Nat \ {0}, a <= b PROVE a \div d <= b \div d
    OBVIOUS
  <1> DEFINE qa == a \div d
  <1> DEFINE qb == b \div d
  <1>1 qa \in Nat /\ qb \in Nat BY DivNat
  <1>2 d * qa <= a /\ b < d * qb + d BY DivChar
  <1>3 d * qa \in Nat /\ d * qb \in Nat BY <1>1, MulNat
  <1>4 d * (qb + 1) = d * qb + d BY <1>1
  <1>5 d * qa < d * (qb + 1) BY <1>2, <1>3, <1>4
  <1>6 qa < qb + 1 BY <1>5, <1>1, MulLtCancel
  <1> QED BY <1>6, <1>1

LEMMA CeilNat == \A n \in Nat : \A d \in Nat \ {0} : FCeilDiv(n, d) \in Nat
  BY DivNat DEF FCeilDiv
LEMMA CeilMono == \A a, b \in Nat : \A d \in Nat \ {0} : a <= b => FCeilDiv(a, d) <= FCeilDiv(b, d)
  <1> SUFFICES ASSUME NEW a \in Nat, NEW b \in Nat, NEW d \in Nat \ {0}, a <= b PROVE FCeilDiv(a, d) <= FCeilDiv(b, d)
    OBVIOUS
  <1>1 CASE a = 0
    BY <1>1, CeilNat DEF FCeilDiv
  <1>2 CASE a > 0
    <2>1 a + d - 1 \in Nat /\ b + d - 1 \in Nat /\ a + d - 1 <= b + d - 1 BY <1>2
    <2>2 (a + d - 1) \div d <= (b + d - 1) \div d BY <2>1, DivMono
    <2> QED BY <1>2, <2>2 DEF FCeilDiv
  <1> QED BY <1>1, <1>2

LEMMA DueNatMono == /\ \A t \in Nat : Due(t) \in Nat
                    /\ \A s, t \in Nat : s <= t => Due(s) <= Due(t)
  <1>1 \A t \in Nat : t * fN \in Nat BY Params, MulNat
  <1>2 mN * qs \in Nat BY Params, MulNat
  <1>3 \A t \in Nat : FCeilDiv(t * fN, fD) \in Nat BY <1>1, Params, CeilNat
  <1>4 FCeilDiv(mN * qs, mD) \in Nat BY <1>2, Params, CeilNat
  <1>5 \A t \in Nat : Due(t) \in Nat BY <1>3, <1>4 DEF Due, FeeDueP, FMax2
  <1>6 ASSUME NEW s \in Nat, NEW t \in Nat, s <= t PROVE Due(s) <= Due(t)
    <2>1 s * fN <= t * fN BY <1>6, Params, MulLeMono
    <2>2 FCeilDiv(s * fN, fD) <= FCeilDiv(t * fN, fD) BY <2>1, <1>1, Params, CeilMono
    <2> QED BY <2>2, <1>3, <1>4 DEF Due, FeeDueP, FMax2
  <1> QED BY <1>5, <1>6

LEMMA InitOK == Init => Closed
  BY DEF Init, Closed
LEMMA StepOK == Closed /\ [Next]_vars => Closed'
<1> SUFFICES ASSUME Closed, [Next]_vars PROVE Closed'
  OBVIOUS
<1>1 CASE UNCHANGED vars
  BY <1>1 DEF vars, Closed
<1>2 ASSUME NEW dq \in Nat \ {0}, Fill(dq) PROVE Closed'
  <2>1 tq \in Nat /\ charged \in Nat /\ tq + dq \in Nat /\ tq + dq > 0 /\ tq <= tq + dq BY DEF Closed
  <2>2 Due(tq + dq) \in Nat BY <2>1, DueNatMono
  <2>3 charged <= Due(tq + dq)
    <3>1 CASE tq = 0 BY <3>1, <2>2 DEF Closed
    <3>2 CASE tq > 0 BY <3>2, <2>1, DueNatMono DEF Closed
    <3> QED BY <3>1, <3>2, <2>1
  <2>4 FeeDeltaP(fN, fD, mN, mD, qs, tq, charged, dq) = Due(tq + dq) - charged
    BY <2>1, <2>2, <2>3 DEF FeeDeltaP, Due, FMax2
  <2>5 charged' = Due(tq + dq) /\ tq' = tq + dq
    BY <1>2, <2>4, <2>1, <2>2 DEF Fill
  <2> QED BY <2>5, <2>1, <2>2 DEF Closed
<1> QED BY <1>1, <1>2 DEF Next

THEOREM C09_ClosedForm == Spec => []Closed
  BY InitOK, StepOK, PTL DEF Spec
=============================================================================
