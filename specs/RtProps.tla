-------------------------------- MODULE RtProps --------------------------------
(***************************************************************************)
(* C15 and the realtime half of C14 over the observable history of a run   *)
(* of the realtime dispatcher.                                             *)
(*   R.arrivals : [id, src, arrive, when]  events handed to source src at  *)
(*                time `arrive` stamped `when` (queue order = arrive, id)  *)
(*   R.jobs     : [id, when, dur]   R.hs : handlers per source             *)
(*   R.maxc, R.stop_at                                                     *)
(*   hist       : sequence of [e "enter"|"exit", kind "ev"|"job"|"idle",   *)
(*                id, src, h, when, t]  in the order they happened         *)
(*   nerrors    : out-of-order reports received through on_error           *)
(*   outcome    : how run() ended                                          *)
(***************************************************************************)
EXTENDS Integers, Sequences, FiniteSets

CONSTANT R

Idx(H) == 1..Len(H.hist)
Enter(H) == {i \in Idx(H) : H.hist[i].e = "enter"}
TaskOf(x) == <<x.kind, x.id>>
\* tasks (events / jobs / idle handlers) in flight right after position n
Entered(H, n) == {TaskOf(H.hist[i]) : i \in {k \in 1..n : H.hist[k].e = "enter"}}
NHandlers(t) == IF t[1] = "ev" THEN Len(R.hs[(CHOOSE a \in {R.arrivals[k] : k \in DOMAIN R.arrivals} : a.id = t[2]).src]) ELSE 1
Exits(H, t, n) == Cardinality({k \in 1..n : H.hist[k].e = "exit" /\ TaskOf(H.hist[k]) = t})
InFlight(H, n) == {t \in Entered(H, n) : Exits(H, t, n) < NHandlers(t)}

C15_NeverEarly(H) == \A i \in Enter(H) : H.hist[i].kind \in {"ev", "job"} => H.hist[i].t >= H.hist[i].when
C15_PerSourceOrder(H) ==
  \A i, j \in Enter(H) : (i < j /\ H.hist[i].kind = "ev" /\ H.hist[j].kind = "ev" /\ H.hist[i].src = H.hist[j].src
                          /\ H.hist[i].id # H.hist[j].id) => H.hist[i].when <= H.hist[j].when
\* queue order of a source and which of its events must be dropped (older than the last delivered predecessor)
ArrSeq == [k \in DOMAIN R.arrivals |-> R.arrivals[k]]
RECURSIVE Walk(_, _, _, _)
Walk(k, src, prev, acc) ==
  IF k > Len(ArrSeq) THEN acc
  ELSE LET a == ArrSeq[k] IN
       IF a.src # src THEN Walk(k + 1, src, prev, acc)
       ELSE IF prev >= 0 /\ a.when < prev THEN Walk(k + 1, src, prev, [acc EXCEPT !.drop = @ \cup {a.id}])
       ELSE Walk(k + 1, src, a.when, [acc EXCEPT !.keep = @ \cup {a.id}])
Plan(src) == Walk(1, src, 0 - 1, [drop |-> {}, keep |-> {}])
Dropped == UNION {Plan(s).drop : s \in 1..R.ns}
Kept == UNION {Plan(s).keep : s \in 1..R.ns}
Delivered(H) == {H.hist[i].id : i \in {k \in Enter(H) : H.hist[k].kind = "ev"}}
C15_DropReported(H) == /\ Delivered(H) \cap Dropped = {}
                       /\ H.nerrors >= Cardinality(Dropped)
\* while it runs every event and job is eventually dispatched once due, exactly once per handler
\* (the scenarios stop the dispatcher well after the last item is due and could have been handled)
Deliveries(H, id, h) == {i \in Enter(H) : H.hist[i].kind = "ev" /\ H.hist[i].id = id /\ H.hist[i].h = h}
C15_EventuallyDispatchedOnce(H) ==
  /\ \A id \in Kept : LET a == CHOOSE a \in {R.arrivals[k] : k \in DOMAIN R.arrivals} : a.id = id IN
        \A h \in 1..Len(R.hs[a.src]) : Cardinality(Deliveries(H, id, h)) = 1
  \* a job that is due well before the dispatcher is stopped runs exactly once; one scheduled for (long) after the stop
  \* never runs; never twice in any case
  /\ \A j \in {R.jobs[k] : k \in DOMAIN R.jobs} :
        LET n == Cardinality({i \in Enter(H) : H.hist[i].kind = "job" /\ H.hist[i].id = j.id}) IN
        /\ n <= 1
        /\ (j.when + 300 <= R.stop_at => n = 1)
        /\ (j.when > R.stop_at => n = 0)
C15_IdleOnlyWhenIdle(H) ==
  \A i \in Enter(H) : H.hist[i].kind = "idle" =>
     \A t \in InFlight(H, i - 1) : t[1] = "idle"
C14_BoundedConcurrency(H) == \A n \in Idx(H) : Cardinality(InFlight(H, n)) <= R.maxc
C14_NoInternalError(H) == H.outcome = "returned"

RtClauses == <<"C15_NeverEarly", "C15_PerSourceOrder", "C15_DropReported", "C15_EventuallyDispatchedOnce",
               "C15_IdleOnlyWhenIdle", "C14_BoundedConcurrency", "C14_NoInternalError">>
RtHolds(H, c) == CASE c = "C15_NeverEarly" -> C15_NeverEarly(H) [] c = "C15_PerSourceOrder" -> C15_PerSourceOrder(H)
                   [] c = "C15_DropReported" -> C15_DropReported(H)
                   [] c = "C15_EventuallyDispatchedOnce" -> C15_EventuallyDispatchedOnce(H)
                   [] c = "C15_IdleOnlyWhenIdle" -> C15_IdleOnlyWhenIdle(H)
                   [] c = "C14_BoundedConcurrency" -> C14_BoundedConcurrency(H)
                   [] c = "C14_NoInternalError" -> C14_NoInternalError(H)
RtFailing(H) == {RtClauses[k] : k \in {i \in 1..Len(RtClauses) : ~RtHolds(H, RtClauses[i])}}
================================================================================
