------------------------------ MODULE TradesToBar ------------------------------
(***************************************************************************)
(* RealTimeTradesToBar.main() as a state machine: virtual time advances,   *)
(* trades are pushed with arbitrary (late, out-of-order, current)          *)
(* timestamps, each window is flushed Delay ticks after its end.           *)
(***************************************************************************)
EXTENDS TradesToBarCore, TLC, Json

CONSTANTS SkipFirst, Start,       \* skip_first_bar; the tick at which main() starts (inside window Start \div W)
          MaxNow, MaxTrades, Prices, Amounts, Back,   \* bounds: trade timestamps range over now-Back .. now
          Emit

VARIABLES now, st, k, pushes, bars, nflushed
vars == <<now, st, k, pushes, bars, nflushed>>

Init == /\ now = Start /\ st = AInit(SkipFirst) /\ k = Start \div W /\ pushes = <<>> /\ bars = <<>> /\ nflushed = 0

FlushDue == now >= End(k) + Delay
\* main(): sleeps until End(k) + Delay, then _flush(begin, end) and moves to the next window
DoFlush ==
  /\ FlushDue
  /\ LET r == Flush(st, Begin(k), End(k)) IN
     /\ st' = r.st
     /\ bars' = IF r.bar = NoBar THEN bars ELSE Append(bars, [r.bar EXCEPT !.end = End(k)] @@ [at |-> now])
  /\ k' = k + 1 /\ nflushed' = nflushed + 1
  /\ UNCHANGED <<now, pushes>>
DoPush(w, p, a) ==
  /\ ~FlushDue /\ Len(pushes) < MaxTrades /\ w >= 0
  /\ LET tr == [id |-> Len(pushes) + 1, w |-> w, p |-> p, a |-> a]
         r  == PushTrade(st, tr) IN
     /\ st' = r.st
     /\ pushes' = Append(pushes, [id |-> tr.id, at |-> now, w |-> w, p |-> p, a |-> a, accepted |-> r.accepted,
                                  flushedK |-> nflushed])
  /\ UNCHANGED <<now, k, bars, nflushed>>
Tick == ~FlushDue /\ now < MaxNow /\ now' = now + 1 /\ UNCHANGED <<st, k, pushes, bars, nflushed>>

Next == DoFlush \/ Tick \/ \E w \in (now - Back)..now : \E p \in Prices : \E a \in Amounts : DoPush(w, p, a)
Spec == Init /\ [][Next]_vars

H == [pushes |-> pushes, bars |-> bars, k0 |-> Start \div W, nflushed |-> nflushed, skipFirst |-> SkipFirst]
Inv_C19_ExactlyOneBar == C19_ExactlyOneBar(H)
Inv_C19_AtMostOneBar  == C19_AtMostOneBar(H)
Inv_C19_InOrderAccepted == C19_InOrderAccepted(H)
Inv_C19_OHLCV         == C19_OHLCV(H)
Inv_C19_BarValid      == C19_BarValid(H)
Inv_C19_EmittedInOrderAtWindowEnd == C19_EmittedInOrderAtWindowEnd(H)
\* reachability probes
Reach_Dropped  == ~(\E i \in 1..Len(pushes) : ~pushes[i].accepted)
Reach_TwoBars  == ~(Len(bars) >= 2)
Reach_MultiTradeBar == ~(\E b \in 1..Len(bars) : Len(bars[b].ids) >= 2)

EmitInv == (Emit /\ now = MaxNow /\ ~FlushDue) => PrintT("@@" \o ToJson(H))
================================================================================
