-------------------------------- MODULE RtTrace --------------------------------
(* Judges recorded runs of the realtime dispatcher (RtProps) and lifecycle scenarios (LifeProps). *)
EXTENDS Integers, Sequences, FiniteSets, TLC, Json, IOUtils
Traces == ndJsonDeserialize(IOEnv.TRACE_FILE)
VARIABLE tid
RP(t) == INSTANCE RtProps WITH R <- Traces[t].cfg
LP == INSTANCE LifeProps
Verdict(t) == IF Traces[t].kind = "rt"
              THEN RP(t)!RtFailing([hist |-> Traces[t].hist, nerrors |-> Traces[t].nerrors, outcome |-> Traces[t].outcome])
              ELSE LP!LifeFailing(Traces[t])
Init == tid = 1
Next == /\ tid <= Len(Traces)
        /\ PrintT("@@" \o ToJson([id |-> Traces[tid].id, failing |-> Verdict(tid)]))
        /\ TLCSet(1, tid) /\ tid' = tid + 1
Spec == Init /\ [][Next]_tid
AllConsumed == TLCGet(1) = Len(Traces)
================================================================================
