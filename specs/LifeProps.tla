------------------------------- MODULE LifeProps -------------------------------
(***************************************************************************)
(* C14 lifecycle clauses over what a run of EventDispatcher.run() shows:    *)
(*   L      : the scenario [disp, producers: <<[init, main, fin]>>, exit]    *)
(*   calls  : sequence of [p, c, t] producer / handler call records          *)
(*   outcome in {"returned", "raised_producer_error", "raised_cancelled",    *)
(*               "raised_internal", "timeout"}                               *)
(*   run_ms, inflight_cancelled, log_restored                                *)
(* Expected(L) is the outcome class the statement allows for the scenario.   *)
(***************************************************************************)
EXTENDS Integers, Sequences, FiniteSets

NP(L) == Len(L.producers)
InitFails(L) == \E p \in 1..NP(L) : L.producers[p].init = "raise"
MainFails(L) == \E p \in 1..NP(L) : L.producers[p].main = "raise"
\* how the run may end
ExpectedOutcomes(L) ==
  IF L.exit = "stop_during_init" THEN {"returned"} \cup (IF InitFails(L) THEN {"raised_producer_error"} ELSE {})
  ELSE IF InitFails(L) THEN {"raised_producer_error"}
  ELSE IF L.exit = "external_cancel" THEN {"raised_cancelled"} \cup (IF MainFails(L) THEN {"raised_producer_error"} ELSE {})
                                          \cup (IF L.disp = "bt" THEN {"returned"} ELSE {})   \* the backtest was over before the cancellation
  \* a failing main() races with the end of the run: a backtest may be over (sources exhausted) or a stop may have been
  \* requested before the producer fails, and then the run just returns
  ELSE IF MainFails(L) THEN {"raised_producer_error"}
                            \cup (IF L.exit \in {"stop_handler", "handler_error_stop", "external_stop"} \/ L.disp = "bt" THEN {"returned"} ELSE {})
  ELSE {"returned"}
Pos(X, c, p) == {i \in 1..Len(X.calls) : X.calls[i].c = c /\ X.calls[i].p = p}
AnyPos(X, c) == {i \in 1..Len(X.calls) : X.calls[i].c = c}
C14_MainAfterAllInit(X) ==
  \* a main loop only starts after every producer was initialised (so not at all when an initialisation fails)
  /\ \A i \in AnyPos(X, "main_begin") : \A p \in 1..NP(X.cfg) : \E j \in Pos(X, "init_end", p) : j < i
  /\ (InitFails(X.cfg) => AnyPos(X, "main_begin") = {})
\* exactly one finalize() per producer, and it is over (returned or raised) by the time run() ends
C14_FinalizedOnce(X) == \A p \in 1..NP(X.cfg) : Cardinality(Pos(X, "fin", p)) = 1 /\ Cardinality(Pos(X, "fin_end", p)) = 1
C14_FinalizeLast(X) == \A i \in AnyPos(X, "fin") : \A j \in AnyPos(X, "handler") \cup AnyPos(X, "main_begin") : j < i
C14_Outcome(X) == X.outcome \in ExpectedOutcomes(X.cfg)
\* prompt: handlers still in flight are cancelled, not awaited (they would run for an hour)
C14_Prompt(X) == X.run_ms < 60000 /\ ~X.inflight_finished
C14_LogFactoryRestored(X) == X.log_restored
\* a failing handler does not prevent the other handlers / later events (unless stop-on-error was requested)
C14_HandlerFaultIsolated(X) ==
  (X.cfg.exit = "handler_error_continue" /\ ~InitFails(X.cfg) /\ ~MainFails(X.cfg)) =>
     \A p \in 1..NP(X.cfg) : Cardinality(Pos(X, "handler", p)) = 3
LifeClauses == <<"C14_MainAfterAllInit", "C14_FinalizedOnce", "C14_FinalizeLast", "C14_Outcome", "C14_Prompt",
                 "C14_LogFactoryRestored", "C14_HandlerFaultIsolated">>
LifeHolds(X, c) == CASE c = "C14_MainAfterAllInit" -> C14_MainAfterAllInit(X) [] c = "C14_FinalizedOnce" -> C14_FinalizedOnce(X)
                     [] c = "C14_FinalizeLast" -> C14_FinalizeLast(X) [] c = "C14_Outcome" -> C14_Outcome(X)
                     [] c = "C14_Prompt" -> C14_Prompt(X) [] c = "C14_LogFactoryRestored" -> C14_LogFactoryRestored(X)
                     [] c = "C14_HandlerFaultIsolated" -> C14_HandlerFaultIsolated(X)
LifeFailing(X) == {LifeClauses[k] : k \in {i \in 1..Len(LifeClauses) : ~LifeHolds(X, LifeClauses[i])}}
================================================================================
