------------------------------- MODULE DispTrace -------------------------------
(***************************************************************************)
(* Judges histories recorded from the real BacktestingDispatcher           *)
(* (harness/disp_impl.py) with the predicates of DispProps.tla.            *)
(* Input: ndjson, one history per line {id, cfg, log, events, sched,       *)
(* orders, clean}.  One verdict per history naming the failing clauses.    *)
(***************************************************************************)
EXTENDS Integers, Sequences, FiniteSets, TLC, Json, IOUtils

Traces == ndJsonDeserialize(IOEnv.TRACE_FILE)
VARIABLE tid
DP(t) == INSTANCE DispProps WITH D <- Traces[t].cfg
ToSet(s) == {s[k] : k \in DOMAIN s}
HistoryOf(tr) == [log |-> tr.log, events |-> ToSet(tr.events), sched |-> ToSet(tr.sched), orders |-> tr.orders,
                  clean |-> tr.clean]
\* whatever handlers and jobs raise is contained: run() itself returns (on exhaustion or after a stop), it never raises
\* and never hangs -- "a failing job does not prevent other jobs or events from running"
Contained(tr) == IF tr.returned THEN {} ELSE {"C13_FaultContained"}
Init == tid = 1
Next == /\ tid <= Len(Traces)
        /\ PrintT("@@" \o ToJson([id |-> Traces[tid].id, n |-> Len(Traces[tid].log),
                                  failing |-> DP(tid)!Failing(HistoryOf(Traces[tid]))
                                              \cup Contained(Traces[tid])]))
        /\ TLCSet(1, tid)
        /\ tid' = tid + 1
Spec == Init /\ [][Next]_tid
AllConsumed == TLCGet(1) = Len(Traces)
================================================================================
