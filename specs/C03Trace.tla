-------------------------------- MODULE C03Trace --------------------------------
(***************************************************************************)
(* C03 on real backtests (real Exchange + real BacktestingDispatcher):     *)
(* one record per scenario with the runs for several max_concurrent values *)
(* / hash seeds.                                                           *)
(*   runs : sequence of [maxc, orders, balances]                           *)
(*   orders : sequence of [key, at, fills : <<[when, base, quote]>>]       *)
(*            key identifies the request (handler, time, index), at = the  *)
(*            dispatcher clock when it was submitted                        *)
(* No look-ahead: every fill is later than the submission.                  *)
(* Determinism (non-suspending handlers): every run has the same fill       *)
(* history per request and the same final balances.                         *)
(***************************************************************************)
EXTENDS Integers, Sequences, FiniteSets, TLC, Json, IOUtils
Traces == ndJsonDeserialize(IOEnv.TRACE_FILE)
VARIABLE tid
ToSet(s) == {s[k] : k \in DOMAIN s}
C03_NoLookAhead(X) ==
  \A r \in ToSet(X.runs) : \A o \in ToSet(r.orders) : \A f \in ToSet(o.fills) : f.when > o.at
C03_Deterministic(X) ==
  X.suspending \/ \A a, b \in ToSet(X.runs) : ToSet(a.orders) = ToSet(b.orders) /\ a.balances = b.balances
C03_RunsCompleted(X) == \A r \in ToSet(X.runs) : r.outcome = "returned"
Failing(X) == (IF C03_NoLookAhead(X) THEN {} ELSE {"C03_NoLookAhead"})
              \cup (IF C03_Deterministic(X) THEN {} ELSE {"C03_Deterministic"})
              \cup (IF C03_RunsCompleted(X) THEN {} ELSE {"C03_RunsCompleted"})
Init == tid = 1
Next == /\ tid <= Len(Traces)
        /\ PrintT("@@" \o ToJson([id |-> Traces[tid].id, failing |-> Failing(Traces[tid])]))
        /\ TLCSet(1, tid) /\ tid' = tid + 1
Spec == Init /\ [][Next]_tid
AllConsumed == TLCGet(1) = Len(Traces)
================================================================================
