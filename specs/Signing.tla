-------------------------------- MODULE Signing --------------------------------
(***************************************************************************)
(* The request pipeline of the authenticated REST clients                  *)
(* (binance/client/base.py make_request + helpers.get_signature,           *)
(*  bitstamp/client.py _make_request + helpers.get_auth_headers):          *)
(*   build -> (rate limiter wait) -> stamp -> sign -> transmit -> verify   *)
(* over abstract values: a parameter value is a short sequence of          *)
(* character classes; an encoder maps a class to the token it emits        *)
(* ("lit" = the character itself, "plus", "pct" = %XX of its UTF-8 bytes,  *)
(* "keep" = an existing %XX sequence left alone, ...).  The class table    *)
(* is MEASURED from the real libraries by the harness (urlencode for the   *)
(* signature, aiohttp/yarl for a query string, aiohttp FormData for a      *)
(* body) and handed in as a constant.                                      *)
(* The exchange accepts a request iff the bytes it receives are the bytes  *)
(* that were signed and the key accompanies it.                            *)
(***************************************************************************)
EXTENDS Integers, Sequences, FiniteSets

CONSTANTS ClassTable,      \* set of [cls, sign, query, body]: token each encoder emits for a character of class cls
          Endpoints,       \* set of [name, exchange, placement ("query"|"body"|"none"), signed, keyed]
          MaxLen,          \* values are sequences of at most MaxLen classes
          PreEncodedQuery, \* TRUE: the client transmits the very query string it signed (no re-encoding by the HTTP library)
          MaxWait, Tol,    \* rate-limiter wait (ticks) and the exchange's timestamp tolerance
          Resend           \* what happens when the connection is lost after the exchange received the request:
                           \*   "none"   the call fails (what the clients do; aiohttp itself only repeats idempotent GETs)
                           \*   "resign" the request goes through stamping and signing again (fresh nonce and timestamp)
                           \*   "reuse"  the very same headers are transmitted again (a design the exchange refuses)

Classes == {r.cls : r \in ClassTable}
Row(c) == CHOOSE r \in ClassTable : r.cls = c
Values == UNION {[1..n -> Classes] : n \in 0..MaxLen}

VARIABLES phase, ep, val, clock, ts, signedMsg, wireMsg, keySent, accepted, nonce, usedNonces,
          received,   \* number of signed requests the exchange received
          seen        \* nonces the exchange received (it refuses a nonce it has seen before)
vars == <<phase, ep, val, clock, ts, signedMsg, wireMsg, keySent, accepted, nonce, usedNonces, received, seen>>

Init == /\ phase = "idle" /\ ep \in Endpoints /\ val = <<>> /\ clock = 0 /\ ts = 0 /\ signedMsg = <<>> /\ wireMsg = <<>>
        /\ keySent = FALSE /\ accepted = FALSE /\ nonce = 0 /\ usedNonces = {} /\ received = 0 /\ seen = {}

Build == /\ phase = "idle"
         /\ ep' \in Endpoints /\ val' \in Values
         /\ phase' = "built"
         /\ UNCHANGED <<clock, ts, signedMsg, wireMsg, keySent, accepted, nonce, usedNonces, received, seen>>
\* the token bucket may make the caller wait before the request is stamped
Throttle == /\ phase = "built" /\ \E w \in 0..MaxWait : clock' = clock + w
            /\ phase' = "throttled"
            /\ UNCHANGED <<ep, val, ts, signedMsg, wireMsg, keySent, accepted, nonce, usedNonces, received, seen>>
\* timestamp (and nonce) are taken after the wait; the signature covers what the signing encoder produces
StampAndSign ==
  /\ phase = "throttled"
  /\ ts' = clock
  /\ nonce' = nonce + 1 /\ usedNonces' = usedNonces \cup {nonce + 1}
  /\ signedMsg' = [i \in 1..Len(val) |-> Row(val[i]).sign]
  /\ phase' = "signed"
  /\ UNCHANGED <<ep, val, clock, wireMsg, keySent, accepted, received, seen>>
Transmit ==
  /\ phase = "signed"
  /\ wireMsg' = [i \in 1..Len(val) |->
                   IF ep.placement = "body" THEN Row(val[i]).body
                   ELSE IF PreEncodedQuery THEN Row(val[i]).sign ELSE Row(val[i]).query]
  /\ keySent' = (ep.signed \/ ep.keyed)
  /\ phase' = "sent"
  /\ UNCHANGED <<ep, val, clock, ts, signedMsg, accepted, nonce, usedNonces, received, seen>>
\* the exchange receives the request: bytes as signed, key present, timestamp fresh, nonce never seen before
Verify ==
  /\ phase = "sent"
  /\ accepted' = (keySent /\ (ep.signed => (wireMsg = signedMsg /\ clock - ts <= Tol /\ nonce \notin seen)))
  /\ received' = received + (IF ep.signed THEN 1 ELSE 0)
  /\ seen' = IF ep.signed THEN seen \cup {nonce} ELSE seen
  /\ phase' = "replied"
  /\ UNCHANGED <<ep, val, clock, ts, signedMsg, wireMsg, keySent, nonce, usedNonces>>
\* the reply reaches the caller ...
Reply == /\ phase = "replied" /\ phase' = "idle" /\ UNCHANGED <<ep, val, clock, ts, signedMsg, wireMsg, keySent, accepted, nonce, usedNonces, received, seen>>
\* ... or the connection is lost before it does
Lose ==
  /\ phase = "replied"
  /\ phase' = CASE Resend = "none" -> "idle"          \* the call raises; the caller may issue a new request
                [] Resend = "resign" -> "built"       \* back through throttle, stamp and sign
                [] Resend = "reuse" -> "signed"       \* same nonce, timestamp and signature once more
  /\ UNCHANGED <<ep, val, clock, ts, signedMsg, wireMsg, keySent, accepted, nonce, usedNonces, received, seen>>
Next == Build \/ Throttle \/ StampAndSign \/ Transmit \/ Verify \/ Reply \/ Lose
Spec == Init /\ [][Next]_vars

\* every request that went through the pipeline was accepted by the exchange
Inv_C16_ServerAccepts == (phase \in {"idle", "replied"} /\ nonce > 0) => accepted
Inv_C16_Fresh == phase \in {"signed", "sent"} => clock - ts <= Tol
Inv_C16_NonceUnique == Cardinality(usedNonces) = nonce /\ Cardinality(seen) = received

================================================================================
