---------------------------- MODULE TradesToBarCore ----------------------------
(***************************************************************************)
(* basana/core/bar.py :: RealTimeTradesToBar (push_trade, _flush, main)    *)
(* as pure operators, plus the C19 predicates over a history of pushes and *)
(* emitted bars.                                                           *)
(*                                                                         *)
(* Time is counted in ticks; a tick is the smallest representable instant  *)
(* (1 microsecond in the implementation).  A window is W ticks long:       *)
(* window k = [k*W, k*W + W - Gap].  Gap = 1 is a window that ends at its   *)
(* last instant; Gap > 1 leaves instants that belong to no window.          *)
(***************************************************************************)
EXTENDS Integers, Sequences, FiniteSets

CONSTANTS W,        \* ticks per window (bar duration)
          Gap,      \* window end = begin + W - Gap
          Delay     \* flush delay in ticks: window k is flushed at End(k) + Delay

Begin(k) == k * W
End(k)   == k * W + W - Gap
WinOf(w) == w \div W
Max2(a, b) == IF a >= b THEN a ELSE b
Min2(a, b) == IF a <= b THEN a ELSE b
None == 0 - 1

\* aggregator state: pending trades, minimum acceptable time of the next trade, skip-first flag
AInit(skipFirst) == [trades |-> <<>>, nextGe |-> None, skip |-> skipFirst]

\* push_trade(when, price, amount): [st, accepted]
PushTrade(st, tr) ==
  IF st.nextGe # None /\ tr.w < st.nextGe THEN [st |-> st, accepted |-> FALSE]
  ELSE [st |-> [st EXCEPT !.trades = Append(@, tr), !.nextGe = tr.w], accepted |-> TRUE]

\* _flush(begin, end): [st, bar (or NoBar), dropped]
NoBar == [ids |-> <<>>]
RECURSIVE Scan(_, _, _, _)
\* walks the pending trades like the for-loop of _flush: acc = ids taken, returns [taken, dropped, rest]
Scan(ts, b, e, acc) ==
  IF ts = <<>> THEN [taken |-> acc.taken, dropped |-> acc.dropped, rest |-> <<>>]
  ELSE LET t == Head(ts) IN
       IF t.w < b THEN Scan(Tail(ts), b, e, [acc EXCEPT !.dropped = Append(@, t)])
       ELSE IF t.w > e THEN [taken |-> acc.taken, dropped |-> acc.dropped, rest |-> ts]
       ELSE Scan(Tail(ts), b, e, [acc EXCEPT !.taken = Append(@, t)])
SeqMax(s, F(_)) == LET V == {F(s[i]) : i \in 1..Len(s)} IN CHOOSE m \in V : \A v \in V : v <= m
SeqMin(s, F(_)) == LET V == {F(s[i]) : i \in 1..Len(s)} IN CHOOSE m \in V : \A v \in V : m <= v
RECURSIVE SeqSum(_, _)
SeqSum(s, n) == IF n = 0 THEN 0 ELSE s[n].a + SeqSum(s, n - 1)
Flush(st, b, e) ==
  LET r   == Scan(st.trades, b, e, [taken |-> <<>>, dropped |-> <<>>])
      vol == SeqSum(r.taken, Len(r.taken))
      bar == IF vol > 0 /\ ~st.skip
             THEN [begin |-> b, end |-> e, o |-> r.taken[1].p, h |-> SeqMax(r.taken, LAMBDA t : t.p),
                   l |-> SeqMin(r.taken, LAMBDA t : t.p), c |-> r.taken[Len(r.taken)].p, v |-> vol,
                   ids |-> [i \in 1..Len(r.taken) |-> r.taken[i].id]]
             ELSE NoBar
  IN [st |-> [trades |-> r.rest, nextGe |-> IF st.nextGe = None THEN e ELSE Max2(st.nextGe, e), skip |-> FALSE],
      bar |-> bar, dropped |-> r.dropped]

(* ---------------- predicates over a history ----------------------------- *)
(* pushes : sequence of [id, at, w, p, a, accepted, flushedK] -- flushedK = number of windows flushed when pushed  *)
(* bars   : sequence of [begin, end, o, h, l, c, v, ids, at] in emission order                                      *)
(* k0, nflushed : first window index and number of flushes so far; skipFirst                                        *)
\* a trade is in order when it is not older than any earlier in-order trade and its window was not flushed yet
RECURSIVE InOrderUpTo(_, _)
\* [flags, maxW] for the first n pushes
InOrderUpTo(H, n) ==
  IF n = 0 THEN [flags |-> <<>>, maxW |-> 0 - 1]
  ELSE LET r == InOrderUpTo(H, n - 1)
           x == H.pushes[n]
           ok == x.w >= r.maxW /\ WinOf(x.w) >= H.k0 + x.flushedK
       IN [flags |-> Append(r.flags, ok), maxW |-> IF ok THEN x.w ELSE r.maxW]
InOrder(H, i) == InOrderUpTo(H, Len(H.pushes)).flags[i]
BarsWith(H, id) == {b \in 1..Len(H.bars) : \E n \in 1..Len(H.bars[b].ids) : H.bars[b].ids[n] = id}
C19_ExactlyOneBar(H) ==
  \A i \in 1..Len(H.pushes) :
     LET x == H.pushes[i] IN
     (InOrder(H, i) /\ x.a > 0 /\ WinOf(x.w) < H.k0 + H.nflushed)               \* its window has been flushed by now
       => IF H.skipFirst /\ WinOf(x.w) = H.k0 THEN BarsWith(H, x.id) = {}
          ELSE Cardinality(BarsWith(H, x.id)) = 1
                /\ \A b \in BarsWith(H, x.id) : H.bars[b].begin = Begin(WinOf(x.w))
\* an in-order trade is never refused
C19_InOrderAccepted(H) == \A i \in 1..Len(H.pushes) : InOrder(H, i) => H.pushes[i].accepted
C19_AtMostOneBar(H) == \A i \in 1..Len(H.pushes) : Cardinality(BarsWith(H, H.pushes[i].id)) <= 1
TradeById(H, id) == H.pushes[CHOOSE i \in 1..Len(H.pushes) : H.pushes[i].id = id]
C19_OHLCV(H) ==
  \A b \in 1..Len(H.bars) : LET B == H.bars[b]  ts == [n \in 1..Len(B.ids) |-> TradeById(H, B.ids[n])] IN
     /\ Len(ts) > 0
     /\ B.o = ts[1].p /\ B.c = ts[Len(ts)].p
     /\ B.h = SeqMax(ts, LAMBDA t : t.p) /\ B.l = SeqMin(ts, LAMBDA t : t.p)
     /\ B.v = SeqSum(ts, Len(ts))
     /\ \A n \in 1..Len(ts) : ts[n].w >= B.begin /\ ts[n].w < B.begin + W
     /\ \A n \in 1..(Len(ts) - 1) : ts[n].w <= ts[n + 1].w
C19_BarValid(H) == \A b \in 1..Len(H.bars) : LET B == H.bars[b] IN B.l <= B.o /\ B.l <= B.c /\ B.o <= B.h /\ B.c <= B.h
C19_EmittedInOrderAtWindowEnd(H) ==
  /\ \A b \in 1..Len(H.bars) : LET B == H.bars[b] IN
        /\ B.begin % W = 0
        /\ B.end = B.begin + W - 1                    \* the bar event is stamped with the last instant of its window
        /\ B.at >= B.end                              \* never emitted before the window is over
        /\ B.at <= B.end + Delay + 1                  \* and no later than the flush delay allows
  /\ \A b \in 1..(Len(H.bars) - 1) : H.bars[b].end < H.bars[b + 1].end

TBClauses == <<"C19_InOrderAccepted", "C19_ExactlyOneBar", "C19_AtMostOneBar", "C19_OHLCV", "C19_BarValid", "C19_EmittedInOrderAtWindowEnd">>
TBHolds(H, c) == CASE c = "C19_ExactlyOneBar" -> C19_ExactlyOneBar(H)
                   [] c = "C19_InOrderAccepted" -> C19_InOrderAccepted(H)
                   [] c = "C19_AtMostOneBar" -> C19_AtMostOneBar(H)
                   [] c = "C19_OHLCV" -> C19_OHLCV(H)
                   [] c = "C19_BarValid" -> C19_BarValid(H)
                   [] c = "C19_EmittedInOrderAtWindowEnd" -> C19_EmittedInOrderAtWindowEnd(H)
TBFailing(H) == {TBClauses[k] : k \in {i \in 1..Len(TBClauses) : ~TBHolds(H, TBClauses[i])}}
================================================================================
