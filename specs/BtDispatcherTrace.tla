--------------------------- MODULE BtDispatcherTrace ---------------------------
(***************************************************************************)
(* Behaviour inclusion: is the log recorded from the real dispatcher a     *)
(* behaviour of BtDispatcher.tla?  Logged steps are handler / job segments *)
(* (with event id, handler, segment, clock); the dispatch loop's own steps *)
(* are not logged and are composed silently between them.  Every trace is  *)
(* an initial state; register tid holds the longest prefix matched         *)
(* (Len + 1 = all segments matched, Len + 2 = and the end of the run).     *)
(***************************************************************************)
EXTENDS Integers, Sequences, FiniteSets, TLC, Json, IOUtils

Traces == ndJsonDeserialize(IOEnv.TRACE_FILE)

VARIABLES tid, l, D,
          q, slot, heap, clock, tasks, pool, lp, stopped, nextId, njobs, orders, log, sm, events, sched, bad
mvars == <<D, q, slot, heap, clock, tasks, pool, lp, stopped, nextId, njobs, orders, log, sm, events, sched, bad>>
vars == <<tid, l, mvars>>

B == INSTANCE BtDispatcher WITH Emit <- FALSE, Cfg <- 0, KeepLog <- TRUE

Progress(t, n) == TLCSet(t, IF TLCGet(t) < n THEN n ELSE TLCGet(t))

Init == /\ tid \in 1..Len(Traces)
        /\ TLCSet(tid, 1)
        /\ l = 1
        /\ B!InitWith(Traces[tid].cfg)

Same(a, b) == /\ a.kind = b.kind /\ a.ev = b.ev /\ a.job = b.job /\ a.h = b.h /\ a.stage = b.stage
              /\ a.seg = b.seg /\ a.clock = b.clock /\ a.when = b.when

Logged ==
  /\ l <= Len(Traces[tid].log)
  /\ \E ti \in pool : \E i \in 1..Len(tasks[ti].pc) :
        /\ B!RunSegment(ti, i)
        /\ Same(log'[Len(log')], Traces[tid].log[l])
  /\ l' = l + 1 /\ tid' = tid /\ D' = D
  /\ Progress(tid, l + 1)

Silent ==
  /\ \/ B!LoopTop
     \/ B!SchedStep("sched", "sched_wait", "events") \/ B!WaitAll("sched_wait", "sched")
     \/ B!EventsBegin \/ B!PopOne \/ B!PopBatch \/ B!NextOfBatch \/ B!Push \/ B!PushWake
     \/ B!WaitAll("events_wait", "top")
     \/ B!SchedStep("drain", "drain_wait", "stop") \/ B!WaitAll("drain_wait", "drain")
     \/ B!LoopStop
  /\ UNCHANGED <<tid, l, D>>
  \* the end of the run: everything matched and the model stopped the way the implementation did
  /\ (l = Len(Traces[tid].log) + 1 /\ stopped' /\ (lp'.pc = "stop") = Traces[tid].clean) => Progress(tid, l + 1)

Next == Logged \/ Silent
Spec == Init /\ [][Next]_vars

\* printed once at the end: how far every trace got
Verdicts == /\ \A t \in 1..Len(Traces) :
                 PrintT("@@" \o ToJson([id |-> Traces[t].id, n |-> Len(Traces[t].log), matched |-> TLCGet(t) - 1]))
            /\ TRUE
================================================================================
