------------------------------- MODULE BarsTrace -------------------------------
(***************************************************************************)
(* Judges histories recorded from the real RealTimeTradesToBar.main() and  *)
(* from the real CSV bar sources.  ndjson, one record per line:            *)
(*   {id, kind:"trades", W, delay, H:{pushes,bars,k0,nflushed,skipFirst}}  *)
(*   {id, kind:"csv", rows, sort, period, events, error}                   *)
(***************************************************************************)
EXTENDS Integers, Sequences, FiniteSets, TLC, Json, IOUtils

Traces == ndJsonDeserialize(IOEnv.TRACE_FILE)
VARIABLE tid
TB(t) == INSTANCE TradesToBarCore WITH W <- Traces[t].W, Gap <- 1, Delay <- Traces[t].delay
CB == INSTANCE CsvBars

Verdict(t) == IF Traces[t].kind = "trades" THEN TB(t)!TBFailing(Traces[t].H)
              ELSE CB!CsvFailing(Traces[t])
Init == tid = 1
Next == /\ tid <= Len(Traces)
        /\ PrintT("@@" \o ToJson([id |-> Traces[tid].id, failing |-> Verdict(tid)]))
        /\ TLCSet(1, tid) /\ tid' = tid + 1
Spec == Init /\ [][Next]_tid
AllConsumed == TLCGet(1) = Len(Traces)
================================================================================
