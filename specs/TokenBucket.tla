------------------------------ MODULE TokenBucket ------------------------------
(***************************************************************************)
(* State machine around TokenBucketCore: callers arrive at arbitrary ticks *)
(* (bursts, idle gaps, overload); every consume() is one action.           *)
(***************************************************************************)
EXTENDS TokenBucketCore, FiniteSets, TLC, Json

CONSTANTS MaxNow, MaxReq,    \* bounds of the model-checking instance
          EmitBehaviours     \* TRUE: print every complete behaviour as JSON (behaviour generator)

VARIABLES now,      \* current tick
          st,       \* limiter state [tok, last]
          calls,    \* history of consume() calls: [at, waitN]
          burst     \* [at, k, a, waitN]: the k-th simultaneous request at `at`; `a` = tokens granted to the burst
vars == <<now, st, calls, burst>>

Init == /\ now = 0 /\ st = TBInit /\ calls = <<>>
        /\ burst = [at |-> 0 - 1, k |-> 0, a |-> 0, waitN |-> 0]

Tick == /\ now < MaxNow /\ now' = now + 1 /\ UNCHANGED <<st, calls, burst>>

Arrive ==
  /\ Len(calls) < MaxReq
  /\ LET r == Consume(st, now) IN
     /\ st' = r.st
     /\ calls' = Append(calls, [at |-> now, waitN |-> r.waitN])
     /\ burst' = IF burst.at = now
                 THEN [burst EXCEPT !.k = @ + 1, !.waitN = r.waitN]
                 ELSE [at |-> now, k |-> 1, a |-> r.avail, waitN |-> r.waitN]
  /\ UNCHANGED now

Next == Tick \/ Arrive
Spec == Init /\ [][Next]_vars

(* ---- properties (C20) -------------------------------------------------- *)
Inv_C20_WindowBound     == WindowBound(calls)
Inv_C20_NonNegativeWait == NonNegativeWait(calls)
Inv_C20_SendsMonotone   == \A i \in 1..Len(calls)-1 : SendS(calls[i]) <= SendS(calls[i+1])
\* tokens refill up to the capacity, never beyond
Inv_C20_RefillCapped    == Len(calls) > 0 => st.tok <= CapS - K
Inv_C20_BurstExact      == burst.k > 0 => burst.waitN = BurstWaitN(burst.k, burst.a)
\* never throttles more than the configured rate requires
Inv_C20_NoOverThrottle  == burst.k > 0 /\ burst.waitN > 0 => burst.a < burst.k * K

\* reachability probes: each must be VIOLATED when checked as an invariant
Reach_Debt  == ~(burst.k > 0 /\ burst.waitN > 0)
Reach_Cap   == ~(Len(calls) > 0 /\ st.tok + (now - st.last) * TppNum > CapS)
Reach_Burst == ~(burst.k >= 3)

\* behaviour generator: every terminal history exactly once (calls is part of the state)
EmitInv == (EmitBehaviours /\ Len(calls) = MaxReq) => PrintT("@@" \o ToJson(calls))
================================================================================
