-------------------------------- MODULE ApiTrace --------------------------------
(***************************************************************************)
(* Judges what a loopback server received from the real REST clients and   *)
(* what the real wrapper objects decoded (harness/sig_impl.py, eng_api.py) *)
(* with the rules of Signing.tla (C16) and WireFormat.tla (C17).           *)
(***************************************************************************)
EXTENDS Integers, Sequences, FiniteSets, TLC, Json, IOUtils
Traces == ndJsonDeserialize(IOEnv.TRACE_FILE)
VARIABLE tid
SG == INSTANCE SigningProps
WF == INSTANCE WireFormat
Cl(name, ok) == IF ok THEN {} ELSE {name}
Verdict(r) ==
  CASE r.kind = "request" ->
         Cl("C16_ServerAccepts", SG!C16_Accepts(r)) \cup Cl("C16_KeyAccompanies", SG!C16_KeyAccompanies(r))
         \cup Cl("C16_Fresh", SG!C16_Fresh(r, r.tol_ms)) \cup Cl("C16_NonceUnique", ~r.nonce_repeated)
    [] r.kind = "decimal" -> Cl("C17_Plain", WF!C17_Plain(r)) \cup Cl("C17_ExactText", WF!C17_ExactText(r))
    [] r.kind = "route" -> Cl("C17_OmitUnset", WF!C17_OmitUnset(r)) \cup Cl("C17_Endpoint", WF!C17_Endpoint(r))
    [] r.kind = "timestamp" -> Cl("C17_Timestamp", WF!C17_Timestamp(r))
    [] r.kind = "status" -> Cl("C17_Status", WF!C17_Status(r))
    [] r.kind = "payload_sum" -> Cl("C17_PayloadSum", WF!C17_PayloadSum(r))
    [] r.kind = "payload_decimal" -> Cl("C17_PayloadDecimal", r.coef = r.got_coef /\ r.exp = r.got_exp)
Init == tid = 1
Next == /\ tid <= Len(Traces)
        /\ PrintT("@@" \o ToJson([id |-> Traces[tid].id, failing |-> Verdict(Traces[tid])]))
        /\ TLCSet(1, tid) /\ tid' = tid + 1
Spec == Init /\ [][Next]_tid
AllConsumed == TLCGet(1) = Len(Traces)
================================================================================
