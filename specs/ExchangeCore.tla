----------------------------- MODULE ExchangeCore -----------------------------
(***************************************************************************)
(* The backtesting exchange of basana (basana/backtesting/...) as a         *)
(* deterministic transition function over an abstract ledger.              *)
(*                                                                         *)
(* One operator per public call / per critical section of the code:        *)
(*   CreateOrder  = Exchange.create_order -> OrderManager.add_order        *)
(*                  (_estimate_required_balances, _borrow + rollback, hold)*)
(*   CancelOrder  = OrderManager.cancel_order (_order_closed, _repay_loans)*)
(*   CreateLoan   = LoanManager.create_loan                                *)
(*   RepayLoan    = LoanManager.repay_loan                                 *)
(*   Bar          = Exchange._on_bar_event: Prices.on_bar_event, then      *)
(*                  OrderManager.on_bar_event/_process_order for every     *)
(*                  open order of the pair in open-list order              *)
(*   Touch        = ExchangeObjectContainer.get_open() bookkeeping         *)
(*                                                                         *)
(* Numbers.  All money is integer *units* of 10^-precision of its symbol   *)
(* (C.scale[sym] units per coin).  A price p is p/(scale[quote]*C.pm)      *)
(* quote coins per base coin.  Every rounding of the code is written out:  *)
(*   truncate_decimal -> \div,  round_decimal (ROUND_HALF_EVEN) -> RHE,    *)
(*   fee ROUND_UP -> CeilDiv.  Rationals are numerator/denominator pairs   *)
(* compared by cross-multiplication.                                       *)
(*                                                                         *)
(* The module has a single CONSTANT C (a configuration record) so that     *)
(* the trace validator can instantiate it per recorded trace.              *)
(***************************************************************************)
EXTENDS Integers, Sequences, FiniteSets, SequencesExt, FeeCore

CONSTANT C
(* C == [ syms     : sequence of symbol names (strings)
          scale    : [sym -> units per coin]
          pairs    : sequence of [b |-> base sym, q |-> quote sym]
          pm       : price units per quote unit (prices may be finer than the quote grid)
          init     : [sym -> initial balance in units]
          feeMode  : "none" | "pct",  feeN/feeD = percentage/100,  minFeeN/minFeeD = minimum fee in quote COINS
          liqMode  : "inf" | "share", vlN/vlD = volume_limit_pct/100, vs = volume units per base unit
          impact   : TRUE iff the price-impact constant is non-zero (fill prices are then only bounded, see FillPriceBand)
          lendMode : "none" | "margin", quoteSym, reqD, cond : [sym -> [has, isym, pctN, pctD, period, minInt, reqN]]
          reindexEvery : ExchangeObjectContainer._reindex_every ] *)

Syms     == {C.syms[i] : i \in 1..Len(C.syms)}
NPairs   == Len(C.pairs)
PairIdx  == 1..NPairs
BaseOf(p)  == C.pairs[p].b
QuoteOf(p) == C.pairs[p].q
BS(p)    == C.scale[BaseOf(p)]
QS(p)    == C.scale[QuoteOf(p)]
PD(p)    == BS(p) * C.pm          \* quote units = amount * price / PD

Max2(a, b) == IF a >= b THEN a ELSE b
Min2(a, b) == IF a <= b THEN a ELSE b
Abs(a)     == IF a >= 0 THEN a ELSE -a
D0         == [x \in Syms |-> 0]
Only(sym, v) == [x \in Syms |-> IF x = sym THEN v ELSE 0]
Plus(f, g)   == [x \in Syms |-> f[x] + g[x]]
Neg(f)       == [x \in Syms |-> -f[x]]

\* round half even of n/d for n >= 0, d > 0
RHE(n, d) == LET q == n \div d  r == n % d IN
             IF 2 * r < d THEN q ELSE IF 2 * r > d THEN q + 1 ELSE IF q % 2 = 0 THEN q ELSE q + 1
CeilDiv(n, d)  == IF n <= 0 THEN 0 ELSE (n + d - 1) \div d
FloorDiv(n, d) == n \div d      \* n >= 0

(***************************************************************************)
(* State                                                                   *)
(*  clock    : simulated time (0 = no event processed yet)                 *)
(*  bal/hold/bor : AccountBalances.balances / holds / borrowed             *)
(*  orders   : creation order; fields below                                *)
(*  loans    : creation order                                              *)
(*  last     : [pair index -> last close, 0 = none]                        *)
(*  openIdx, reidx : ExchangeObjectContainer._open_items/_reindex_counter  *)
(*  events   : order events pushed so far                                  *)
(***************************************************************************)
Init0 == [clock |-> 0, bal |-> [x \in Syms |-> C.init[x]], hold |-> D0, bor |-> D0,
          orders |-> <<>>, loans |-> <<>>, last |-> [p \in PairIdx |-> 0],
          openIdx |-> <<>>, reidx |-> 0, events |-> <<>>,
          cond |-> C.cond]          \* MarginLoans._conditions: the lending conditions in force (set_conditions changes them)

IsOpen(o) == o.state = "open"
OpenOrderIdx(s) == {i \in 1..Len(s.orders) : IsOpen(s.orders[i])}
OpenLoanIdx(s)  == {j \in 1..Len(s.loans) : s.loans[j].open}
Avail(s, x) == s.bal[x] - s.hold[x]

(* ---------------------------- lending ---------------------------------- *)
\* The conditions in force are part of the state (MarginLoans.set_conditions may change them at any time): the margin
\* requirement is always taken from the conditions in force, the interest terms of a loan are those in force when it
\* was granted (MarginLoan keeps its conditions).
SetCond(s, x, which) == [s EXCEPT !.cond[x] = IF which = "alt" THEN C.condAlt[x] ELSE C.cond[x]]
Q  == C.quoteSym
SMax == LET S == {C.scale[x] : x \in Syms} IN CHOOSE m \in S : \A k \in S : k <= m
PairOf(b, q) == {p \in PairIdx : BaseOf(p) = b /\ QuoteOf(p) = q}
\* Prices.convert: the direct pair x/Q if it has a price, otherwise the inverse pair Q/x (1 / price)
DirectPriced(s, x) == \E p \in PairOf(x, Q) : s.last[p] > 0
InvPricedOnly(s, x) == x # Q /\ ~DirectPriced(s, x) /\ \E p \in PairOf(Q, x) : s.last[p] > 0
HasPrice(s, x) == x = Q \/ DirectPriced(s, x) \/ InvPricedOnly(s, x)
PriceIn(s, x)  == LET p == CHOOSE p \in PairOf(x, Q) : s.last[p] > 0 IN s.last[p]
InvPrice(s, x) == LET p == CHOOSE p \in PairOf(Q, x) : s.last[p] > 0 IN s.last[p]
\* values through an inverse pair divide by its price: every value is carried multiplied by KAll, the product of the
\* prices of all inverse-valued symbols, so that everything stays integral (the factor cancels in every comparison)
RECURSIVE ProdInv(_, _)
ProdInv(s, S) == IF S = {} THEN 1 ELSE LET x == CHOOSE x \in S : TRUE IN InvPrice(s, x) * ProdInv(s, S \ {x})
KAll(s) == ProdInv(s, {x \in Syms : InvPricedOnly(s, x)})
\* value of v units of symbol x in units of the normalising symbol, as a numerator over VDen (times KAll)
VDen == SMax * C.pm
\*   x = Q      : v units                              = v * VDen / VDen
\*   direct x/Q : v * price / (scale[x] * pm)          = v * price * (SMax / scale[x]) / VDen
\*   inverse Q/x: v * pm * scale[Q] / price            = v * pm * pm * scale[Q] * SMax / price / VDen
ValQ(s, x, v) == IF v = 0 THEN 0
                 ELSE IF x = Q THEN v * VDen * KAll(s)
                 ELSE IF DirectPriced(s, x) THEN v * PriceIn(s, x) * (SMax \div C.scale[x]) * KAll(s)
                 ELSE v * C.pm * C.pm * C.scale[Q] * SMax * (KAll(s) \div InvPrice(s, x))

\* outstanding interest of loan l at time t, in units of its interest symbol (MarginLoan.calculate_interest,
\* then ValueMap.truncate): max(principal * pct/100 * elapsed/period [converted], min) truncated
\* raw interest numerator / denominator: proportional to the elapsed time, or flat when the conditions have no period
IntN(l, t) == IF l.c.period = 0 THEN l.amount * l.c.pctN ELSE l.amount * l.c.pctN * (t - l.at)
IntD(l)    == IF l.c.period = 0 THEN l.c.pctD ELSE l.c.pctD * l.c.period
InterestOf(s, l, t) ==
  LET c   == l.c
      n   == IntN(l, t)
      d   == IntD(l)
      \* ValueMap.truncate: down to the precision configured for the interest SYMBOL, which may be coarser than the
      \* precision of the pairs it trades in (C.istep units per step; set_pair_info overrides the pair's precision)
      Tr(v) == (v \div C.istep[c.isym]) * C.istep[c.isym]
  IN IF c.isym = l.sym
     THEN Tr(Max2(n \div d, c.minInt))
     ELSE IF n = 0 THEN Tr(c.minInt)                 \* Prices.convert(0) needs no price
     ELSE \* converted to the interest symbol (only the normalising symbol is supported as a foreign interest symbol)
          LET p == PriceIn(s, l.sym) IN
          Tr(Max2((n * p) \div (d * C.scale[l.sym] * C.pm), c.minInt))
\* (a foreign interest symbol is only supported for symbols priced through a direct pair; nothing to convert = no price needed)
InterestConvertible(s, l) ==
  l.c.isym = l.sym \/ IntN(l, s.clock) = 0 \/ (l.c.isym = Q /\ DirectPriced(s, l.sym))

\* CheckMarginLevel on candidate maps (nb, nbor).  Result: "ok" | "nebal" | "noprice" | "zero"
MarginCheck(s, nb, nbor) ==
  LET borrowedSyms == {x \in Syms : nbor[x] # 0 /\ s.cond[x].reqN # 0}   \* Prices.convert(0) needs no price
      open == OpenLoanIdx(s)
      intSyms == {s.loans[j].c.isym : j \in {k \in open : InterestOf(s, s.loans[k], s.clock) > 0}}
  IN IF \E x \in borrowedSyms : ~HasPrice(s, x) THEN "noprice"
     ELSE LET RECURSIVE SumUsed(_)
              SumUsed(S) == IF S = {} THEN 0 ELSE LET x == CHOOSE x \in S : TRUE IN
                               ValQ(s, x, nbor[x]) * s.cond[x].reqN + SumUsed(S \ {x})
              used == SumUsed(borrowedSyms)           \* over VDen * C.reqD
          IN IF used = 0 THEN "ok"
             ELSE IF \E j \in open : InterestOf(s, s.loans[j], s.clock) > 0 /\ ~HasPrice(s, s.loans[j].c.isym)
                  THEN "noprice"
             ELSE LET RECURSIVE SumInt(_)
                      SumInt(S) == IF S = {} THEN 0 ELSE LET j == CHOOSE j \in S : TRUE IN
                                      ValQ(s, s.loans[j].c.isym, InterestOf(s, s.loans[j], s.clock)) + SumInt(S \ {j})
                      interest == SumInt(open)        \* over VDen
                      posSyms == {x \in Syms : nb[x] - nbor[x] > 0}
                  IN IF \E x \in posSyms : ~HasPrice(s, x) THEN "noprice"
                     ELSE LET RECURSIVE SumEq(_)
                              SumEq(S) == IF S = {} THEN 0 ELSE LET x == CHOOSE x \in S : TRUE IN
                                             ValQ(s, x, nb[x] - nbor[x]) + SumEq(S \ {x})
                              equity == SumEq(posSyms) \* over VDen
                          \* level = equity / (used margin + interest); the rule rejects 0 < level < 100.
                          \* level = 0 with used margin > 0 (no equity left) is reported as "zero": the update
                          \* rule lets it pass, MarginLoans.create_loan refuses it (_check_equity_left)
                          IN IF equity = 0 THEN "zero"
                             ELSE IF equity * C.reqD < used + interest * C.reqD THEN "nebal" ELSE "ok"

\* AccountBalances.update: all-or-nothing under NonZero, ValidHold and (margin lending) CheckMarginLevel.
\* The margin rule is evaluated only when balances or borrowed change (a pure hold update cannot change the level).
Update(s, db, dh, dbor) ==
  LET nb == Plus(s.bal, db)  nh == Plus(s.hold, dh)  nbor == Plus(s.bor, dbor) IN
  IF \E x \in Syms : nb[x] < 0 THEN [ok |-> FALSE, err |-> "nebal", s |-> s]
  ELSE IF \E x \in Syms : nh[x] < 0 \/ nbor[x] < 0 THEN [ok |-> FALSE, err |-> "error", s |-> s]
  ELSE IF \E x \in Syms : nh[x] > nb[x] THEN [ok |-> FALSE, err |-> "nebal", s |-> s]
  ELSE LET m == IF C.lendMode = "margin" /\ (db # D0 \/ dbor # D0) THEN MarginCheck(s, nb, nbor) ELSE "ok" IN
       IF m \notin {"ok", "zero"} THEN [ok |-> FALSE, err |-> m, s |-> s]
       ELSE [ok |-> TRUE, err |-> "", s |-> [s EXCEPT !.bal = nb, !.hold = nh, !.bor = nbor]]

\* LoanManager.create_loan
CreateLoanI(s, sym, amount) ==
  IF amount <= 0 THEN [ok |-> FALSE, err |-> "error", s |-> s]
  ELSE IF s.clock = 0 THEN [ok |-> FALSE, err |-> "error", s |-> s]          \* dispatcher.now() not available
  ELSE IF C.lendMode = "none" THEN [ok |-> FALSE, err |-> "error", s |-> s]  \* NoLoans
  ELSE IF ~s.cond[sym].has THEN [ok |-> FALSE, err |-> "error", s |-> s]
  ELSE LET pre == MarginCheck(s, Plus(s.bal, Only(sym, amount)), Plus(s.bor, Only(sym, amount)))   \* _check_equity_left
           u   == Update(s, Only(sym, amount), D0, Only(sym, amount)) IN
       IF pre = "noprice" THEN [ok |-> FALSE, err |-> "noprice", s |-> s]
       ELSE IF pre = "zero" THEN [ok |-> FALSE, err |-> "nebal", s |-> s]
       \* a loan whose interest cannot be valued (flat interest in another symbol, no price yet) is refused BEFORE the
       \* account is touched: LoanManager.create_loan builds the loan's description first
       ELSE IF ~InterestConvertible(s, [sym |-> sym, amount |-> amount, at |-> s.clock, c |-> s.cond[sym]])
            THEN [ok |-> FALSE, err |-> "noprice", s |-> s]
       ELSE IF ~u.ok THEN u
       ELSE [ok |-> TRUE, err |-> "",
             s |-> [u.s EXCEPT !.loans = Append(@, [sym |-> sym, amount |-> amount, at |-> s.clock, open |-> TRUE,
                                                    paid |-> D0, cause |-> "none", c |-> s.cond[sym]])]]

\* LoanManager.cancel_loan (rollback of an auto-borrow)
\* the loan is closed first so that its own (minimum) interest no longer counts in the margin level of the state the
\* account goes back to; if the update is refused all the same, it stays open
CancelLoanI(s, j) ==
  LET l  == s.loans[j]
      sc == [s EXCEPT !.loans[j].open = FALSE, !.loans[j].cause = "rollback"]
      u  == Update(sc, Only(l.sym, -l.amount), D0, Only(l.sym, -l.amount)) IN
  IF ~u.ok THEN [u EXCEPT !.s = s] ELSE u

\* LoanManager.repay_loan
RepayLoanI(s, j, cause) ==
  IF j \notin 1..Len(s.loans) THEN [ok |-> FALSE, err |-> "notfound", s |-> s]
  ELSE IF ~s.loans[j].open THEN [ok |-> FALSE, err |-> "error", s |-> s]
  ELSE LET l == s.loans[j] IN
       IF ~InterestConvertible(s, l) THEN [ok |-> FALSE, err |-> "noprice", s |-> s]
       ELSE LET i  == InterestOf(s, l, s.clock)
                db == Plus(Only(l.sym, -l.amount), Only(l.c.isym, -i))
                u  == Update(s, db, D0, Only(l.sym, -l.amount)) IN
            IF ~u.ok THEN u
            ELSE [u EXCEPT !.s = [u.s EXCEPT !.loans[j].open = FALSE, !.loans[j].cause = cause,
                                             !.loans[j].paid = Only(l.c.isym, i)]]

(* ------------------------------ fees ------------------------------------ *)
\* total fee due (quote units, rounded up) for a cumulative traded quote amount tq
\* (FeeCore.FeeDueP: max(tq * feeN/feeD, minFee) with minFee = minFeeN*QS/minFeeD units, then ROUND_UP; the closed form
\* "fees charged over any sequence of fills = FeeDue(total)" is proved for all parameters in proofs/FeeProof.tla)
FeeDue(p, tq) ==
  IF C.feeMode \in {"none", "base"} THEN 0
  ELSE FeeDueP(C.feeN, C.feeD, C.minFeeN, C.minFeeD, QS(p), tq)
\* A user-defined FeeStrategy that charges in the BASE symbol (C.feeMode = "base"): feeN/feeD of the base amount of every
\* fill, rounded up to the base precision by OrderManager._round_fees.  Liquidity is consumed by the traded amount, not by
\* the amount net of fees; a sell reserves amount + estimated fee of the base symbol.
FeeB(base) == IF C.feeMode = "base" THEN CeilDiv(base * C.feeN, C.feeD) ELSE 0
\* Percentage.calculate_fees + _round_fees: what is still to be charged given what was charged
FeeDelta(p, tqBefore, charged, dq) ==
  IF C.feeMode \in {"none", "base"} THEN Max2(0, 0 - charged)
  ELSE FeeDeltaP(C.feeN, C.feeD, C.minFeeN, C.minFeeD, QS(p), tqBefore, charged, dq)

(* ------------------------- order acceptance ----------------------------- *)
Sign(op) == IF op = "buy" THEN 1 ELSE -1
EstPrice(s, r) == IF r.type \in {"limit", "stoplimit"} THEN r.limit
                  ELSE IF r.type = "stop" THEN r.stop
                  ELSE s.last[r.pair]                       \* 0 = no price known
\* OrderManager._estimate_required_balances
Required(s, r) ==
  LET p  == r.pair
      ep == EstPrice(s, r)
      q  == IF ep > 0 THEN RHE(r.amount * ep, PD(p)) ELSE 0      \* rounded estimated quote amount
      f  == IF q > 0 THEN FeeDelta(p, 0, 0, q) ELSE 0
      fb == IF q > 0 THEN FeeB(r.amount) ELSE 0                   \* fees are only estimated when a price is known
  IN IF r.op = "buy"
     THEN Plus(Only(QuoteOf(p), IF q > 0 THEN q + f ELSE 0), Only(BaseOf(p), Max2(0, fb - r.amount)))
     ELSE Plus(Only(BaseOf(p), r.amount + fb), Only(QuoteOf(p), Max2(0, f - q)))

ReqValid(r) == /\ r.amount > 0 /\ ~r.offgrid
               \* prices of a request must be on the quote grid (a multiple of pm price units)
               /\ (r.type \in {"limit", "stoplimit"} => r.limit > 0 /\ r.limit % C.pm = 0)
               /\ (r.type \in {"stop", "stoplimit"} => r.stop > 0 /\ r.stop % C.pm = 0)

OrderInfoOf(o) == [state |-> o.state, filled |-> o.filled, qfilled |-> o.qfilled, fee |-> o.fee, loans |-> o.loans]
PushEvent(s, i) == [s EXCEPT !.events = Append(@, [t |-> s.clock, o |-> i, info |-> OrderInfoOf(s.orders[i])])]

\* OrderManager._borrow: one loan per symbol the account is short of, in map order (base, quote); rollback on failure
RECURSIVE Rollback(_, _)
Rollback(s, made) == IF made = <<>> THEN s ELSE Rollback(CancelLoanI(s, Head(made)).s, Tail(made))

CreateOrder(s, r) ==
  IF ~ReqValid(r) THEN [ok |-> FALSE, err |-> "error", s |-> s]
  ELSE
  LET p   == r.pair
      req == Required(s, r)
      shortAtStart == [x \in Syms |-> Max2(0, req[x] - Avail(s, x))]
      order(loanSet) ==
        [type |-> r.type, op |-> r.op, pair |-> p, amount |-> r.amount, limit |-> r.limit, stop |-> r.stop,
         filled |-> 0, qfilled |-> 0, fee |-> 0, feeB |-> 0, state |-> "open", ab |-> r.ab, ar |-> r.ar, loans |-> loanSet,
         holdRem |-> req, stopHit |-> FALSE, at |-> s.clock, nfills |-> 0, lastFill |-> 0]
      accept(st, loanSet) ==
        LET st2 == [st EXCEPT !.orders = Append(@, order(loanSet)), !.openIdx = Append(@, Len(st.orders) + 1)] IN
        [ok |-> TRUE, err |-> "", s |-> IF st.clock > 0 THEN PushEvent(st2, Len(st2.orders)) ELSE st2]
  IN IF req = D0 THEN accept(s, {})
     ELSE \* the code computes every shortfall first (post_hold) and then borrows each
          LET b == IF r.ab
                   THEN LET RECURSIVE Go(_, _, _)
                            Go(st, todo, made) ==
                              IF todo = <<>> THEN [ok |-> TRUE, err |-> "", s |-> st, made |-> made]
                              ELSE LET x == Head(todo) IN
                                   IF shortAtStart[x] = 0 THEN Go(st, Tail(todo), made)
                                   ELSE LET c == CreateLoanI(st, x, shortAtStart[x]) IN
                                        IF c.ok THEN Go(c.s, Tail(todo), Append(made, Len(c.s.loans)))
                                        ELSE [ok |-> FALSE, err |-> c.err, s |-> Rollback(st, made), made |-> <<>>]
                        IN Go(s, <<BaseOf(p), QuoteOf(p)>>, <<>>)
                   ELSE [ok |-> TRUE, err |-> "", s |-> s, made |-> <<>>]
          IN IF ~b.ok THEN [ok |-> FALSE, err |-> b.err, s |-> b.s]
             ELSE LET h == Update(b.s, D0, req, D0) IN
                  IF ~h.ok
                  THEN \* the hold failed after a successful auto-borrow: the loans are rolled back
                       [ok |-> FALSE, err |-> h.err, s |-> Rollback(b.s, b.made)]
                  ELSE accept(h.s, {b.made[k] : k \in 1..Len(b.made)})

(* --------------------------- order closing ------------------------------ *)
\* OrderManager._repay_loans: open loans in the credited symbol, largest first (stable), skipping unaffordable ones
SortedCandidates(s, sym) ==
  LET cand == {j \in OpenLoanIdx(s) : s.loans[j].sym = sym}
      RECURSIVE Sort(_)
      Sort(S) == IF S = {} THEN <<>>
                 ELSE LET j == CHOOSE j \in S : \A k \in S : s.loans[j].amount > s.loans[k].amount
                                                             \/ (s.loans[j].amount = s.loans[k].amount /\ j <= k)
                      IN <<j>> \o Sort(S \ {j})
  IN Sort(cand)
RECURSIVE RepayAll(_, _, _)
RepayAll(s, i, todo) ==
  IF todo = <<>> THEN s
  ELSE LET r == RepayLoanI(s, Head(todo), "autorepay") IN
       IF r.ok THEN RepayAll([r.s EXCEPT !.orders[i].loans = @ \cup {Head(todo)}], i, Tail(todo))
       ELSE RepayAll(s, i, Tail(todo))       \* NotEnoughBalance (and, in the model, any refusal) is skipped

\* OrderManager._order_closed: release what is left of the reservation, then auto-repay if the order traded
OrderClosed(s, i) ==
  LET o  == s.orders[i]
      u  == Update(s, D0, Neg(o.holdRem), D0)           \* pure hold release: cannot be refused
      s1 == [u.s EXCEPT !.orders[i].holdRem = D0]
  IN IF o.ar /\ o.filled > 0
     THEN RepayAll(s1, i, SortedCandidates(s1, IF o.op = "buy" THEN BaseOf(o.pair) ELSE QuoteOf(o.pair)))
     ELSE s1

CancelOrder(s, i) ==
  IF i \notin 1..Len(s.orders) THEN [ok |-> FALSE, err |-> "error", s |-> s]
  ELSE IF ~IsOpen(s.orders[i]) THEN [ok |-> FALSE, err |-> "error", s |-> s]
  ELSE [ok |-> TRUE, err |-> "", s |-> PushEvent(OrderClosed([s EXCEPT !.orders[i].state = "canceled"], i), i)]

(* --------------------------- bar processing ----------------------------- *)
(* Liquidity of the current bar in base units over the denominator LD:     *)
(*   total = volume * vlN / (vlD * vs);  used = sum of truncated base fills *)
LD == C.vlD * C.vs
LiqTotalN(bar) == bar.v * C.vlN

\* Order.get_balance_updates: [amtN (base units over LD), price, hit] ; amtN = 0 means "no fill this bar"
\* availN < 0 encodes infinite liquidity
Fill0 == [amtN |-> 0, price |-> 0]
OrderFill(o, bar, availN) ==
  LET inf  == availN < 0
      pend == (o.amount - o.filled) * LD
      part == IF inf THEN pend ELSE Min2(pend, availN)          \* limit-type orders fill partially
      fok  == inf \/ pend <= availN                             \* market/stop: fill or kill
      limitPx == IF o.op = "buy"
                 THEN (IF bar.o < o.limit THEN bar.o ELSE IF bar.l <= o.limit THEN o.limit ELSE 0)
                 ELSE (IF bar.o > o.limit THEN bar.o ELSE IF bar.h >= o.limit THEN o.limit ELSE 0)
  IN CASE o.type = "market" -> IF fok THEN [amtN |-> pend, price |-> bar.o] ELSE Fill0
       [] o.type = "limit"  -> IF part > 0 /\ limitPx > 0 THEN [amtN |-> part, price |-> limitPx] ELSE Fill0
       [] o.type = "stop"   ->
            LET px == IF o.op = "buy"
                      THEN (IF bar.o >= o.stop THEN bar.o ELSE IF bar.h >= o.stop THEN o.stop ELSE 0)
                      ELSE (IF bar.o <= o.stop THEN bar.o ELSE IF bar.l <= o.stop THEN o.stop ELSE 0)
            IN IF fok /\ px > 0 THEN [amtN |-> pend, price |-> px] ELSE Fill0
       [] o.type = "stoplimit" ->
            IF o.stopHit
            THEN IF part > 0 /\ limitPx > 0 THEN [amtN |-> part, price |-> limitPx] ELSE Fill0
            ELSE LET inRange == bar.l <= o.limit /\ o.limit <= bar.h
                     px == IF o.op = "buy"
                           THEN (IF bar.o >= o.stop
                                 THEN (IF bar.o <= o.limit THEN bar.o ELSE IF inRange THEN o.limit ELSE 0)
                                 ELSE IF bar.h >= o.stop THEN (IF inRange THEN o.limit ELSE 0) ELSE 0)
                           ELSE (IF bar.o <= o.stop
                                 THEN (IF bar.o >= o.limit THEN bar.o ELSE IF inRange THEN o.limit ELSE 0)
                                 ELSE IF bar.l <= o.stop THEN (IF inRange THEN o.limit ELSE 0) ELSE 0)
                 IN IF part > 0 /\ px > 0 THEN [amtN |-> part, price |-> px] ELSE Fill0
StopNowHit(o, bar) == o.type = "stoplimit" /\ ~o.stopHit /\
                      (IF o.op = "buy" THEN bar.h >= o.stop ELSE bar.l <= o.stop)

\* one order against one bar: OrderManager._process_order.  Returns [s, usedN] (liquidity consumed so far)
(* Price impact (VolumeShareImpact with a non-zero impact constant): the fill price is the order's reference price  *)
(* slipped by a 28-digit Decimal expression and capped, which this integer model does not reproduce.  For such       *)
(* configurations (C.impact) the trace validator passes a hint with what the implementation reports for every order  *)
(* after the bar: the quote amount of a fill is taken from it (and judged by the price-band predicates of C04), and   *)
(* a fill the implementation did not make is followed (its slipped cost may have exceeded the funds).                 *)
NoHint == [on |-> FALSE, f |-> <<>>, q |-> <<>>]
ProcessOrder(s, i, bar, usedN, hint) ==
  LET o      == s.orders[i]
      p      == o.pair
      availN == IF C.liqMode = "inf" THEN -1 ELSE LiqTotalN(bar) - usedN
      f0     == OrderFill(o, bar, availN)
      base0  == f0.amtN \div LD
      hinted == hint.on /\ i <= Len(hint.f) /\ f0.amtN > 0 /\ base0 > 0
      \* the implementation made no fill where the exact price would allow one: follow it
      f      == IF hinted /\ hint.f[i] = o.filled THEN Fill0 ELSE f0
      sHit   == IF StopNowHit(o, bar) THEN [s EXCEPT !.orders[i].stopHit = TRUE] ELSE s
      base   == f.amtN \div LD                                   \* truncated to base precision
      \* the quote amount is that of the truncated base amount (see _round_balance_updates)
      quote  == IF hinted /\ hint.f[i] - o.filled = base /\ hint.q[i] - o.qfilled > 0
                THEN hint.q[i] - o.qfilled
                ELSE RHE(base * f.price, PD(p))
      notFilled(st) ==                                           \* order_not_filled()
        IF o.type \in {"market", "stop"}
        THEN PushEvent(OrderClosed([st EXCEPT !.orders[i].state = "canceled"], i), i)
        ELSE st
  IN IF f.amtN = 0 \/ base = 0 \/ quote = 0 THEN [s |-> notFilled(sHit), usedN |-> usedN]
     ELSE
     LET fee   == FeeDelta(p, o.qfilled, o.fee, quote)
         feeB  == FeeB(base)
         sg    == Sign(o.op)
         dQuote == -sg * quote - fee                             \* signed change of the quote balance
         db    == Plus(Only(BaseOf(p), sg * base - feeB), Only(QuoteOf(p), dQuote))
         \* release min(spent, remaining) of the reservation for every symbol the fill debits
         rel   == [x \in Syms |-> IF db[x] < 0 THEN Min2(-db[x], o.holdRem[x]) ELSE 0]
         u     == Update(sHit, db, Neg(rel), D0)
     IN IF ~u.ok THEN [s |-> notFilled(sHit), usedN |-> usedN]
        ELSE LET filled2 == o.filled + base
                 s1 == [u.s EXCEPT !.orders[i].filled = filled2, !.orders[i].qfilled = @ + quote,
                                   !.orders[i].fee = @ + fee, !.orders[i].feeB = @ + feeB, !.orders[i].nfills = @ + 1,
                                   !.orders[i].lastFill = sHit.clock,
                                   !.orders[i].holdRem = [x \in Syms |-> o.holdRem[x] - rel[x]],
                                   !.orders[i].state = IF filled2 >= o.amount THEN "completed" ELSE "open"]
                 s2 == IF filled2 >= o.amount THEN OrderClosed(s1, i) ELSE s1
             IN [s |-> PushEvent(s2, i), usedN |-> usedN + base * LD]

RECURSIVE ProcessAll(_, _, _, _, _)
ProcessAll(s, todo, bar, usedN, hint) ==
  IF todo = <<>> THEN s
  ELSE LET i == Head(todo) IN
       IF IsOpen(s.orders[i]) /\ s.orders[i].pair = bar.p
       THEN LET r == ProcessOrder(s, i, bar, usedN, hint) IN ProcessAll(r.s, Tail(todo), bar, r.usedN, hint)
       ELSE ProcessAll(s, Tail(todo), bar, usedN, hint)

\* ExchangeObjectContainer.get_open(): counter, periodic rebuild of the open list
Touch(s) ==
  LET n == s.reidx + 1 IN
  IF n % C.reindexEvery = 0
  THEN [s EXCEPT !.reidx = n, !.openIdx = SelectSeq(@, LAMBDA i : IsOpen(s.orders[i]))]
  ELSE [s EXCEPT !.reidx = n]

RECURSIVE TouchN(_, _)
TouchN(s, n) == IF n = 0 THEN s ELSE TouchN(Touch(s), n - 1)

\* Exchange._on_bar_event for bar = [p, t, o, h, l, c, v]
BarH(s, bar, hint) ==
  LET s0 == [s EXCEPT !.clock = bar.t, !.last[bar.p] = bar.c]
      s1 == ProcessAll(s0, s0.openIdx, bar, 0, hint)
  IN Touch(s1)
Bar(s, bar) == BarH(s, bar, NoHint)

BarValid(bar) == bar.l <= bar.o /\ bar.l <= bar.c /\ bar.o <= bar.h /\ bar.c <= bar.h /\ bar.l > 0

(***************************************************************************)
(* Property predicates.  They are written over an arbitrary state record   *)
(* so that the same text judges spec states (MC) and implementation states *)
(* (trace validation: the logged observables are overlaid on the spec's    *)
(* hidden variables).                                                      *)
(***************************************************************************)
SumOrders(s, n, F(_)) == FoldSeq(LAMBDA o, acc : acc + F(o), 0, s.orders)
SumLoans(s, n, F(_))  == FoldSeq(LAMBDA l, acc : acc + F(l), 0, s.loans)

Total(s, x) == s.bal[x] - s.bor[x]         \* = available + hold - borrowed
\* signed effect of order o on symbol x: fills and fees
OrderEffect(o, x) ==
  (IF x = BaseOf(o.pair) THEN Sign(o.op) * o.filled - o.feeB ELSE 0)
  + (IF x = QuoteOf(o.pair) THEN -Sign(o.op) * o.qfilled - o.fee ELSE 0)

\* C01
Inv_C01_Conservation(s) ==
  \A x \in Syms : Total(s, x) = C.init[x] + SumOrders(s, Len(s.orders), LAMBDA o : OrderEffect(o, x))
                                - SumLoans(s, Len(s.loans), LAMBDA l : l.paid[x])
\* C02
Inv_C02_NonNegative(s) == \A x \in Syms : Avail(s, x) >= 0 /\ s.hold[x] >= 0 /\ s.bor[x] >= 0
Inv_C02_BorrowedIsOpenPrincipal(s) ==
  \A x \in Syms : s.bor[x] = SumLoans(s, Len(s.loans), LAMBDA l : IF l.open /\ l.sym = x THEN l.amount ELSE 0)
\* C05 (state part)
Inv_C05_OrderShape(s) ==
  \A i \in 1..Len(s.orders) : LET o == s.orders[i] IN
     /\ 0 <= o.filled /\ o.filled <= o.amount
     /\ (o.state = "completed") = (o.filled = o.amount)
     /\ (o.type \in {"market", "stop"} => o.filled \in {0, o.amount})
     /\ (o.filled = 0) = (o.qfilled = 0)
Inv_C05_OpenListing(s) ==
  \* what get_open() yields: exactly the open orders, in creation order, no duplicates
  SelectSeq(s.openIdx, LAMBDA i : IsOpen(s.orders[i])) =
     SelectSeq([i \in 1..Len(s.orders) |-> i], LAMBDA i : IsOpen(s.orders[i]))
\* C06
Inv_C06_HoldIsSumOfOpen(s) ==
  \A x \in Syms : s.hold[x] = SumOrders(s, Len(s.orders), LAMBDA o : IF IsOpen(o) THEN o.holdRem[x] ELSE 0)
Inv_C06_NoOpenNoHold(s) == OpenOrderIdx(s) = {} => s.hold = D0
Inv_C06_HoldLeBalance(s) == \A x \in Syms : s.hold[x] <= s.bal[x]
\* C09
Inv_C09_TotalFee(s) ==
  \A i \in 1..Len(s.orders) : LET o == s.orders[i] IN
     /\ o.fee >= 0
     /\ o.fee = IF o.qfilled = 0 THEN 0 ELSE FeeDue(o.pair, o.qfilled)
     \* base-symbol fees (user-defined strategy): at least the configured share of what was traded, nothing otherwise
     /\ (IF C.feeMode = "base" THEN o.feeB * C.feeD >= o.filled * C.feeN ELSE o.feeB = 0)
\* C10: the margin requirement, recomputed independently of MarginCheck (no interest term, no level)
\* (a borrowed symbol that cannot be valued at all does not meet any requirement: the request must fail)
MarginRequirementMet(s) ==
  LET bs == {x \in Syms : s.bor[x] > 0 /\ s.cond[x].reqN > 0} IN      \* a requirement of 0 needs no valuation
  /\ \A x \in bs : HasPrice(s, x)
  /\ (\A x \in bs \cup {y \in Syms : s.bal[y] - s.bor[y] > 0} : HasPrice(s, x)) =>
     LET RECURSIVE SU(_)
         SU(S) == IF S = {} THEN 0 ELSE LET x == CHOOSE x \in S : TRUE IN ValQ(s, x, s.bor[x]) * s.cond[x].reqN + SU(S \ {x})
         RECURSIVE SE(_)
         SE(S) == IF S = {} THEN 0 ELSE LET x == CHOOSE x \in S : TRUE IN ValQ(s, x, s.bal[x] - s.bor[x]) + SE(S \ {x})
     IN SE({y \in Syms : s.bal[y] - s.bor[y] > 0}) * C.reqD >= SU(bs)
\* C11
Inv_C11_LoanShape(s) ==
  \A j \in 1..Len(s.loans) : LET l == s.loans[j] IN
     /\ l.amount > 0
     /\ (l.open => l.paid = D0 /\ l.cause = "none")
     /\ (~l.open => l.cause \in {"repay", "autorepay", "rollback"})
     /\ \A x \in Syms : l.paid[x] >= 0
     /\ (l.cause = "rollback" => l.paid = D0)
     /\ (l.cause \in {"repay", "autorepay"} => l.paid[l.c.isym] >= l.c.minInt)
================================================================================
