------------------------------ MODULE SigningProps ------------------------------
(* C16 predicates over a request as received by the verifying loopback server. *)
EXTENDS Integers
C16_Accepts(r) == r.signed => (r.sig_ok /\ r.key_ok)
C16_KeyAccompanies(r) == r.key_ok
\* the timestamp is current when the exchange receives the request (it is taken after any rate-limiter wait)
C16_Fresh(r, tolMs) == r.signed => (r.ts_ms >= r.recv_ms - tolMs /\ r.ts_ms <= r.recv_ms + tolMs)
================================================================================
