---------------------------- MODULE TokenBucketCore ----------------------------
(***************************************************************************)
(* Pure transition function of basana/core/token_bucket.py ::              *)
(* TokenBucketLimiter.consume(), shared by the state machine               *)
(* (TokenBucket.tla) and the trace validator (TokenBucketTrace.tla).       *)
(*                                                                         *)
(* Time is counted in integer ticks.  The token balance is carried scaled  *)
(* by K == Period * TppDen so that everything stays integral:              *)
(*   one token            = K scaled units                                 *)
(*   refill per tick      = TppNum scaled units  (rate = tpp / period)     *)
(*   capacity (= tpp)     = TppNum * Period scaled units                   *)
(*   a debt of d scaled units is paid back after d / TppNum ticks          *)
(***************************************************************************)
EXTENDS Integers, Sequences

CONSTANTS TppNum, TppDen,   \* tokens per period = TppNum / TppDen  (> 0, may be fractional)
          Period,           \* period duration in ticks (> 0)
          InitTok           \* initial tokens (>= 0, whole tokens)

K    == Period * TppDen          \* scaled units per token
CapS == TppNum * Period          \* capacity, scaled
Max2(a, b) == IF a >= b THEN a ELSE b
Min2(a, b) == IF a <= b THEN a ELSE b

TBInit == [tok |-> InitTok * K, last |-> 0]

\* the refill of consume(): proportional to elapsed time, capped at capacity
\* (the code compares after adding, so initial tokens above capacity are cut at the first call)
Refilled(st, t) == Min2(st.tok + (t - st.last) * TppNum, CapS)

\* consume() at time t: new state, tokens granted to this instant, and the wait in 1/TppNum ticks
Consume(st, t) ==
  LET a     == Refilled(st, t)
      after == a - K
  IN [st    |-> [tok |-> after, last |-> t],
      avail |-> a,
      waitN |-> IF after >= 0 THEN 0 ELSE -after]

(* ---- property predicates over a call history --------------------------- *)
(* calls : sequence of [at |-> tick, waitN |-> wait in 1/TppNum ticks]      *)
SendS(c) == c.at * TppNum + c.waitN             \* send time scaled by TppNum

\* capacity of the statement: tokens per period, or the initial tokens if larger
CapStmtS == Max2(CapS, InitTok * K)

\* in any window [send_i, send_j] at most capacity + rate*L + 1 requests are sent:
\* n <= cap + rate*L + 1, rate*L = (send_j - send_i)/K in scaled units; multiplied through by K
WindowBound(calls) ==
  \A i \in 1..Len(calls) : \A j \in i..Len(calls) :
     SendS(calls[j]) >= SendS(calls[i]) =>
        (j - i + 1) * K <= CapStmtS + (SendS(calls[j]) - SendS(calls[i])) + K

NonNegativeWait(calls) == \A i \in 1..Len(calls) : calls[i].waitN >= 0

\* the k-th request of a burst made when `a` tokens (scaled) are available waits max(0, k - a)/rate
BurstWaitN(k, a) == Max2(0, k * K - a)
================================================================================
