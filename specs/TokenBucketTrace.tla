--------------------------- MODULE TokenBucketTrace ---------------------------
(***************************************************************************)
(* Validates traces recorded from the real TokenBucketLimiter.             *)
(* Input: ndjson, one trace per line:                                      *)
(*   {id, tppNum, tppDen, period, init,                                    *)
(*    steps: [{at, waitN, offgrid, cancelled, tokens}]}                     *)
(* cancelled: the caller used wait() and was cancelled while sleeping (its  *)
(* token is spent, it never sends); tokens: what the `tokens` property      *)
(* reported just before the call (-1 = not read; reading has no effect).    *)
(* `at` in ticks, `waitN` the returned wait in 1/TppNum ticks (projection  *)
(* harness/eng_tokenbucket.py), offgrid = TRUE when the float wait was not *)
(* within tolerance of that grid.  Total: never blocks, names the failing  *)
(* clause per step, one verdict per trace.                                 *)
(***************************************************************************)
EXTENDS Integers, Sequences, TLC, Json, IOUtils, FiniteSets

Traces == ndJsonDeserialize(IOEnv.TRACE_FILE)

VARIABLES tid, l, st, bk, ba, hist, viol
vars == <<tid, l, st, bk, ba, hist, viol>>

TB(t) == INSTANCE TokenBucketCore WITH TppNum <- Traces[t].tppNum, TppDen <- Traces[t].tppDen,
                                        Period <- Traces[t].period, InitTok <- Traces[t].init

Init == /\ tid = 1 /\ l = 1 /\ st = TB(1)!TBInit /\ bk = 0 /\ ba = 0 /\ hist = <<>> /\ viol = {}

Step ==
  /\ tid <= Len(Traces)
  /\ LET tr == Traces[tid] IN
     IF l <= Len(tr.steps) THEN
        LET ev    == tr.steps[l]
            r     == TB(tid)!Consume(st, ev.at)
            same  == l > 1 /\ tr.steps[l-1].at = ev.at
            k     == IF same THEN bk + 1 ELSE 1
            a     == IF same THEN ba ELSE r.avail
            h2    == IF ev.cancelled THEN hist ELSE Append(hist, [at |-> ev.at, waitN |-> ev.waitN])
            K     == TB(tid)!K
            q     == IF st.tok >= 0 THEN st.tok \div K ELSE 0
            \* the property truncates a float: an exact whole number of tokens may be reported one short
            tokOK == ev.tokens < 0 \/ ev.tokens = q \/ (st.tok > 0 /\ st.tok % K = 0 /\ ev.tokens = q - 1)
            bad   == IF ev.cancelled THEN (IF tokOK THEN {} ELSE {"Obs_C20_Tokens"})
                     ELSE
                     (IF ev.offgrid THEN {"Step_Consume_Grid"} ELSE {})
                     \cup (IF r.waitN # ev.waitN THEN {"Step_Consume"} ELSE {})
                     \cup (IF ev.waitN # TB(tid)!BurstWaitN(k, a) THEN {"Inv_C20_BurstExact"} ELSE {})
                     \cup (IF ev.waitN < 0 THEN {"Inv_C20_NonNegativeWait"} ELSE {})
                     \cup (IF ~TB(tid)!WindowBound(h2) THEN {"Inv_C20_WindowBound"} ELSE {})
                     \cup (IF tokOK THEN {} ELSE {"Obs_C20_Tokens"})
        IN /\ st' = r.st /\ l' = l + 1 /\ tid' = tid /\ bk' = k /\ ba' = a /\ hist' = h2
           /\ viol' = viol \cup {<<l, c>> : c \in bad}
     ELSE /\ PrintT("@@" \o ToJson([id |-> tr.id, steps |-> Len(tr.steps),
                                    viol |-> {[step |-> v[1], clause |-> v[2]] : v \in viol}]))
          /\ tid' = tid + 1 /\ l' = 1 /\ viol' = {} /\ bk' = 0 /\ ba' = 0 /\ hist' = <<>>
          /\ st' = IF tid + 1 <= Len(Traces) THEN TB(tid + 1)!TBInit ELSE st
          /\ TLCSet(1, tid)
Spec == Init /\ [][Step]_vars
AllConsumed == TLCGet(1) = Len(Traces)
================================================================================
