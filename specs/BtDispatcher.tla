----------------------------- MODULE BtDispatcher -----------------------------
(***************************************************************************)
(* The backtesting dispatch loop as a state machine (see BtDispatcherCore). *)
(* Properties: C12 (global order, exactly once, stages, clock), C13         *)
(* (scheduled jobs), C03 (no look-ahead through an abstract exchange), the  *)
(* backtesting half of C14 (bounded concurrency, fault isolation).          *)
(***************************************************************************)
EXTENDS Integers, Sequences, FiniteSets, TLC, Json

CONSTANT KeepLog,  \* TRUE: keep the full history `log` (trace validation, behaviour generator); FALSE: only the
                   \* summary `sm` the step assertions need, so that commuting interleavings reach the same state
         Cfg,      \* the configuration record (see BtDispatcherCore) the model-checking instance starts from
         Emit      \* TRUE: print the history of every terminated behaviour (behaviour generator)

\* The configuration is carried as a variable that never changes (D' = D) instead of a CONSTANT: a module with
\* variables may only be instantiated with constant-level substitutions, and the trace validator
\* (BtDispatcherTrace.tla) has to bind a different configuration for every recorded trace.
VARIABLE D
INSTANCE BtDispatcherCore

VARIABLES q,        \* [src -> queue of events still inside the source]
          slot,     \* EventMultiplexer._prefetched_events
          heap,     \* SchedulerQueue._queue (array)
          clock,    \* BacktestingDispatcher._last_dt (0 = None)
          tasks,    \* every task ever created, in creation order
          pool,     \* TaskPool._tasks: indices into tasks
          lp,       \* the dispatch loop: [pc, dt, ev]
          stopped,
          nextId,   \* next event id
          njobs,    \* next job id
          orders,   \* abstract exchange: [pair, at (clock at submission), filledAt (0 = open)]
          log,      \* observable history: handler / job segments executed (only when KeepLog)
          sm,       \* summary of the history for the step assertions: [n, maxEv, maxJob, lastJobStart, lastEvIdx, ran]
          events,   \* every event that exists (initial + pushed)
          sched,    \* every job ever scheduled: [id, when, at]
          bad       \* names of property clauses violated so far (assertions evaluated inside the actions)
vars == <<D, q, slot, heap, clock, tasks, pool, lp, stopped, nextId, njobs, orders, log, sm, events, sched, bad>>

DP == INSTANCE DispProps
H == [log |-> log, events |-> events, sched |-> sched, orders |-> orders, clean |-> stopped /\ lp.pc = "stop"]

InitEvents(s) == [k \in 1..Len(D.evs[s]) |-> [id |-> 100 * s + k, src |-> s, when |-> D.evs[s][k]]]
RECURSIVE PushAll(_, _, _)
PushAll(h, js, k) == IF k > Len(js) THEN h ELSE PushAll(HeapPush(h, [when |-> js[k].when, prog |-> js[k].prog, id |-> k]), js, k + 1)

InitWith(cfg) ==
        /\ D = cfg
        /\ q = [s \in Srcs |-> InitEvents(s)]
        /\ slot = [s \in Srcs |-> NoEv]
        /\ heap = PushAll(<<>>, D.jobs, 1)
        /\ clock = 0 /\ tasks = <<>> /\ pool = {} /\ stopped = FALSE
        /\ lp = [pc |-> "top", dt |-> 0, ev |-> NoEv, batch |-> <<>>]
        /\ nextId = 1000 /\ njobs = Len(D.jobs) + 1
        /\ orders = <<>> /\ log = <<>> /\ bad = {}
        /\ sm = [n |-> 0, maxEv |-> 0, maxJob |-> 0, lastJobStart |-> 0, lastEvIdx |-> 0, ran |-> {}]
        /\ events = UNION {{InitEvents(s)[k] : k \in 1..Len(D.evs[s])} : s \in Srcs}
        /\ sched = {[id |-> k, when |-> D.jobs[k].when, at |-> 0, late |-> FALSE] : k \in 1..Len(D.jobs)}

LoopBlocked == lp.pc \in {"sched_wait", "push_blocked", "events_wait", "drain_wait"}
AllDone(S) == \A i \in S : TaskDone(tasks[i])

(* ------------------------------ the loop -------------------------------- *)
\* while not self.stopped: next_dt = self._event_mux.peek_next_event_dt() ...
LoopTop ==
  /\ lp.pc = "top" /\ ~stopped
  /\ LET r  == PrefetchAll(q, slot, 1)
         nd == NextDt(r.slot) IN
     /\ q' = r.q /\ slot' = r.slot
     /\ IF nd # 0
        THEN /\ lp' = [lp EXCEPT !.pc = "sched", !.dt = nd]
             /\ bad' = bad \cup (IF clock # 0 /\ nd < clock THEN {"C12_LoopAssert_NextDtBeforeClock"} ELSE {})
        ELSE /\ lp' = IF heap # <<>> THEN [lp EXCEPT !.pc = "drain", !.dt = PeekLast(heap)] ELSE [lp EXCEPT !.pc = "stop"]
             /\ bad' = bad
  /\ UNCHANGED <<heap, clock, tasks, pool, stopped, nextId, njobs, orders, log, sm, events, sched>>

\* _dispatch_scheduled(dt): one job at a time, waiting for it before the next
SchedStep(pcIn, pcWait, pcOut) ==
  /\ lp.pc = pcIn /\ ~stopped
  /\ IF heap # <<>> /\ heap[1].when <= lp.dt
     THEN LET r == HeapPop(heap) IN
          /\ heap' = r.h
          /\ clock' = IF clock = 0 \/ r.item.when > clock THEN r.item.when ELSE clock
          /\ tasks' = Append(tasks, NewJobTask(r.item))
          /\ pool' = pool \cup {Len(tasks) + 1}
          /\ lp' = [lp EXCEPT !.pc = pcWait]
     ELSE /\ lp' = [lp EXCEPT !.pc = pcOut]
          /\ UNCHANGED <<heap, clock, tasks, pool>>
  /\ UNCHANGED <<q, slot, stopped, nextId, njobs, orders, log, sm, events, sched, bad>>
\* await self._handlers_task_pool.wait(): resumes when every task of the pool is done, collecting them
WaitAll(pcWait, pcOut) ==
  /\ lp.pc = pcWait /\ ~stopped /\ AllDone(pool)
  /\ pool' = {} /\ lp' = [lp EXCEPT !.pc = pcOut]
  /\ UNCHANGED <<q, slot, heap, clock, tasks, stopped, nextId, njobs, orders, log, sm, events, sched, bad>>

\* _dispatch_events(dt): self._last_dt = dt; pop_while(dt) -> push
EventsBegin ==
  /\ lp.pc = "events" /\ ~stopped
  /\ clock' = lp.dt
  /\ lp' = [lp EXCEPT !.pc = IF D.barrier THEN "popall" ELSE "pop"]
  /\ UNCHANGED <<q, slot, heap, tasks, pool, stopped, nextId, njobs, orders, log, sm, events, sched, bad>>
\* without the barrier: pop one event, push it (or block when the pool is full), pop the next ...
PopOne ==
  /\ lp.pc = "pop" /\ ~stopped
  /\ LET r == MuxPop(q, slot, lp.dt) IN
     /\ q' = r.q /\ slot' = r.slot
     /\ IF r.ev = NoEv THEN lp' = [lp EXCEPT !.pc = "events_wait"]
        ELSE lp' = [lp EXCEPT !.pc = "push", !.ev = r.ev]
  /\ UNCHANGED <<heap, clock, tasks, pool, stopped, nextId, njobs, orders, log, sm, events, sched, bad>>
\* with the barrier: every due event is popped before the first task is created
RECURSIVE PopAll(_, _, _, _)
PopAll(qq, ss, dt, acc) ==
  LET r == MuxPop(qq, ss, dt) IN
  IF r.ev = NoEv THEN [q |-> r.q, slot |-> r.slot, batch |-> acc] ELSE PopAll(r.q, r.slot, dt, Append(acc, r.ev))
PopBatch ==
  /\ lp.pc = "popall" /\ ~stopped
  /\ LET r == PopAll(q, slot, lp.dt, <<>>) IN
     /\ q' = r.q /\ slot' = r.slot /\ lp' = [lp EXCEPT !.pc = "pushbatch", !.batch = r.batch]
  /\ UNCHANGED <<heap, clock, tasks, pool, stopped, nextId, njobs, orders, log, sm, events, sched, bad>>
NextOfBatch ==
  /\ lp.pc = "pushbatch" /\ ~stopped
  /\ IF lp.batch = <<>> THEN lp' = [lp EXCEPT !.pc = "events_wait"]
     ELSE lp' = [lp EXCEPT !.pc = "push", !.ev = Head(lp.batch), !.batch = Tail(lp.batch)]
  /\ UNCHANGED <<q, slot, heap, clock, tasks, pool, stopped, nextId, njobs, orders, log, sm, events, sched, bad>>
\* TaskPool.push: while len(self._tasks) >= max: wait FIRST_COMPLETED; then create_task
Push ==
  /\ lp.pc = "push" /\ ~stopped
  /\ IF Cardinality(pool) >= D.maxc
     THEN /\ lp' = [lp EXCEPT !.pc = "push_blocked"] /\ UNCHANGED <<tasks, pool>>
     ELSE /\ tasks' = Append(tasks, NewEventTask(lp.ev))
          /\ pool' = pool \cup {Len(tasks) + 1}
          /\ lp' = [lp EXCEPT !.pc = IF D.barrier THEN "pushbatch" ELSE "pop", !.ev = NoEv]
  /\ UNCHANGED <<q, slot, heap, clock, stopped, nextId, njobs, orders, log, sm, events, sched, bad>>
\* the FIRST_COMPLETED wait returns: every finished task leaves the pool
PushWake ==
  /\ lp.pc = "push_blocked" /\ ~stopped
  /\ \E i \in pool : TaskDone(tasks[i])
  /\ pool' = {i \in pool : ~TaskDone(tasks[i])}
  /\ lp' = [lp EXCEPT !.pc = "push"]
  /\ UNCHANGED <<q, slot, heap, clock, tasks, stopped, nextId, njobs, orders, log, sm, events, sched, bad>>
LoopStop ==
  /\ lp.pc = "stop" /\ ~stopped
  /\ stopped' = TRUE
  /\ UNCHANGED <<q, slot, heap, clock, tasks, pool, lp, nextId, njobs, orders, log, sm, events, sched, bad>>

(* --------------------------- handler segments --------------------------- *)
RECURSIVE Apply(_, _, _)
\* effects of one segment on [q, heap, njobs, nextId, orders, stop, raised]
Apply(st, effs, now) ==
  IF effs = <<>> THEN st
  ELSE LET e == Head(effs) IN
       IF st.raised THEN st
       ELSE Apply(
         CASE e.op = "push"  -> [st EXCEPT !.q[e.src] = Append(@, [id |-> st.nextId, src |-> e.src, when |-> now]),
                                           !.events = @ \cup {[id |-> st.nextId, src |-> e.src, when |-> now]},
                                           !.nextId = @ + 1]
           [] e.op = "sched" -> [st EXCEPT !.heap = HeapPush(@, [when |-> now + e.delta, prog |-> e.prog, id |-> st.njobs]),
                                           !.sched = @ \cup {[id |-> st.njobs, when |-> now + e.delta, at |-> st.at, late |-> e.delta < 0]},
                                           !.njobs = @ + 1]
           [] e.op = "raise" -> [st EXCEPT !.raised = TRUE]
           [] e.op = "stop"  -> [st EXCEPT !.stop = TRUE]
           [] e.op = "order" -> [st EXCEPT !.orders = Append(@, [pair |-> e.pair, at |-> now, filledAt |-> 0])]
           [] e.op = "match" -> [st EXCEPT !.orders = [k \in DOMAIN @ |->
                                              IF @[k].pair = e.pair /\ @[k].filledAt = 0 THEN [@[k] EXCEPT !.filledAt = now] ELSE @[k]]],
         Tail(effs), now)

RunSegment(ti, i) ==
  /\ LoopBlocked /\ ~stopped
  /\ ti \in pool /\ Runnable(tasks[ti], i)
  /\ LET t    == tasks[ti]
         h    == TaskHandlers(t)[i]
         seg  == t.pc[i] + 1
         effs == D.prog[h][seg]
         r    == Apply([q |-> q, heap |-> heap, njobs |-> njobs, nextId |-> nextId, orders |-> orders,
                        events |-> events, sched |-> sched, at |-> sm.n + 1,
                        stop |-> FALSE, raised |-> FALSE], effs, clock)
         \* an exception ends the handler there (it is caught and logged by _call_event_handler/_execute_scheduled)
         pc2  == IF r.raised THEN Len(D.prog[h]) ELSE seg
         t1   == [t EXCEPT !.pc[i] = pc2]
         t2   == IF StageFinished(t1)
                 THEN IF t.kind = "job" THEN [t1 EXCEPT !.st = 4]
                      ELSE LET ns == FirstStage(t.ev, t.st + 1) IN
                           [t1 EXCEPT !.st = ns, !.pc = [k \in 1..Len(StageHandlers(t.ev, ns)) |-> 0]]
                 ELSE t1
     IN /\ tasks' = [tasks EXCEPT ![ti] = t2]
        /\ q' = r.q /\ heap' = r.heap /\ njobs' = r.njobs /\ nextId' = r.nextId /\ orders' = r.orders
        /\ events' = r.events /\ sched' = r.sched
        /\ stopped' = (r.stop \/ (r.raised /\ D.stopOnErr))
        /\ log' = IF KeepLog
                   THEN Append(log, [kind |-> t.kind, ev |-> t.ev.id, job |-> t.jid, src |-> t.ev.src, when |-> t.ev.when,
                                     h |-> h, stage |-> t.st, seg |-> seg, clock |-> clock])
                   ELSE log
        /\ sm' = [n |-> sm.n + 1,
                  maxEv |-> IF t.kind = "ev" THEN Max2(sm.maxEv, t.ev.when) ELSE sm.maxEv,
                  maxJob |-> IF t.kind = "job" THEN Max2(sm.maxJob, t.ev.when) ELSE sm.maxJob,
                  lastJobStart |-> IF t.kind = "job" /\ seg = 1 /\ ~(\E j \in sched : j.id = t.jid /\ j.late) THEN t.ev.when ELSE sm.lastJobStart,
                  lastEvIdx |-> IF t.kind = "ev" THEN sm.n + 1 ELSE sm.lastEvIdx,
                  ran |-> IF t.kind = "job" /\ seg = 1 THEN sm.ran \cup {t.jid} ELSE sm.ran]
        /\ bad' = bad
             \* C12: while a handler runs the clock equals the event's time
             \cup (IF t.kind = "ev" /\ clock # t.ev.when THEN {"C12_ClockEqualsEventTime"} ELSE {})
             \* C12: deliveries in globally non-decreasing time order
             \cup (IF t.kind = "ev" /\ t.ev.when < sm.maxEv THEN {"C12_GlobalOrder"} ELSE {})
             \* C13: a job never runs before its time, jobs start in non-decreasing scheduled-time order, each once,
             \*      after all events with an earlier time and before any event with a later time
             \cup (IF t.kind = "job" /\ clock < t.ev.when THEN {"C13_NotEarly"} ELSE {})
             \cup (IF t.kind = "job" /\ seg = 1 /\ ~(\E j \in sched : j.id = t.jid /\ j.late)
                      /\ (t.ev.when < sm.lastJobStart \/ t.ev.when < sm.maxEv) THEN {"C13_Ordered"} ELSE {})
             \cup (IF t.kind = "ev" /\ t.ev.when < sm.maxJob THEN {"C13_Ordered"} ELSE {})
             \cup (IF t.kind = "job" /\ seg = 1 /\ t.jid \in sm.ran THEN {"C13_AtMostOnce"} ELSE {})
             \* C03: an order is never filled by a bar whose time is <= the clock at submission
             \cup (IF \E k \in DOMAIN r.orders : k \in DOMAIN orders /\ orders[k].filledAt = 0 /\ r.orders[k].filledAt # 0
                                                  /\ r.orders[k].filledAt <= r.orders[k].at
                   THEN {"C03_NoLookAhead"} ELSE {})
  /\ UNCHANGED <<slot, clock, pool, lp>>

Step == \/ LoopTop
        \/ SchedStep("sched", "sched_wait", "events") \/ WaitAll("sched_wait", "sched")
        \/ EventsBegin \/ PopOne \/ PopBatch \/ NextOfBatch \/ Push \/ PushWake
        \/ WaitAll("events_wait", "top")
        \/ SchedStep("drain", "drain_wait", "stop") \/ WaitAll("drain_wait", "drain")
        \/ LoopStop
        \/ \E ti \in pool : \E i \in 1..Len(tasks[ti].pc) : RunSegment(ti, i)
Init == InitWith(Cfg)
Next == Step /\ D' = D
Spec == Init /\ [][Next]_vars

Terminated == stopped
CleanEnd   == stopped /\ lp.pc = "stop"        \* sources exhausted (not a stop() from a handler)

(* ============================== properties ============================== *)
NoBadClause == bad = {}
\* C12: the clock never moves backwards
ClockMonotone == [][clock' >= clock]_vars
\* the history predicates of DispProps, one invariant each
Inv_C12_GlobalOrder          == DP!C12_GlobalOrder(H)
Inv_C12_ClockEqualsEventTime == DP!C12_ClockEqualsEventTime(H)
Inv_C12_ClockMonotone        == DP!C12_ClockMonotone(H)
Inv_C12_StageOrder           == DP!C12_StageOrder(H)
Inv_C12_AtMostOnce           == DP!C12_AtMostOnce(H)
Inv_C12_ExactlyOnce          == DP!C12_ExactlyOnce(H)
Inv_C13_NotEarly             == DP!C13_NotEarly(H)
Inv_C13_AtMostOnce           == DP!C13_AtMostOnce(H)
Inv_C13_Ordered              == DP!C13_Ordered(H)
Inv_C13_AllRan               == DP!C13_AllRan(H)
Inv_C14_BoundedConcurrency   == DP!C14_BoundedConcurrency(H) /\ Cardinality(pool) <= D.maxc
Inv_C03_NoLookAhead          == DP!C03_NoLookAhead(H)
\* C13 on the summary: at a clean end every job scheduled no later than the handling of the last event ran
Inv_C13_AllRan_Summary ==
  (stopped /\ lp.pc = "stop") => \A j \in sched : j.at <= sm.lastEvIdx => j.id \in sm.ran
\* C12 at the design level: a clean end leaves nothing in the sources, the slots or the pool
Inv_C12_NothingLeft ==
  (stopped /\ lp.pc = "stop") => /\ \A s \in Srcs : q[s] = <<>> /\ slot[s] = NoEv
                                  /\ \A i \in 1..Len(tasks) : TaskDone(tasks[i])

\* behaviour generator
EmitInv == (Emit /\ stopped) => PrintT("@@" \o ToJson(H))
================================================================================
