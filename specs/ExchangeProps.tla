----------------------------- MODULE ExchangeProps -----------------------------
(***************************************************************************)
(* Observable projection and the step predicates of properties C01..C11,   *)
(* variable-free so that Exchange.tla (model checking) and                 *)
(* ExchangeTrace.tla (validation of implementation traces) share one text. *)
(* A step is (s, s2, c): pre-state, post-state, call record                *)
(* c = [kind, arg, ok, err].                                               *)
(***************************************************************************)
EXTENDS ExchangeCore

ObsOrder(o) == [state |-> o.state, filled |-> o.filled, qfilled |-> o.qfilled, fee |-> o.fee, feeB |-> o.feeB,
                remaining |-> o.amount - o.filled, loans |-> o.loans]
ObsLoan(s, l) == [open |-> l.open, sym |-> l.sym, amount |-> l.amount, paid |-> l.paid,
                  outInt |-> IF l.open /\ InterestConvertible(s, l) THEN InterestOf(s, l, s.clock) ELSE 0]
\* Prices.get_bid_ask: last close -/+ half the spread, the half spread truncated to the quote precision;
\* C.spreadN / C.spreadD is the spread in percent; <<0, 0>> when the pair has no price yet
BidAsk(s, p) == IF s.last[p] = 0 THEN <<0, 0>>
                ELSE LET half == ((s.last[p] * C.spreadN) \div (C.spreadD * 200 * C.pm)) * C.pm IN
                     <<s.last[p] - half, s.last[p] + half>>
Obs(s) == [clock |-> s.clock, bal |-> s.bal, hold |-> s.hold, bor |-> s.bor,
           bidask |-> [p \in PairIdx |-> BidAsk(s, p)],
           orders |-> [i \in 1..Len(s.orders) |-> ObsOrder(s.orders[i])],
           loans |-> [j \in 1..Len(s.loans) |-> ObsLoan(s, s.loans[j])],
           openList |-> SelectSeq(s.openIdx, LAMBDA i : IsOpen(s.orders[i])),
           nevents |-> Len(s.events)]


\* order events: one per acceptance, fill and closure; in time order; the last equals the order's state
EventsOf(s, i) == SelectSeq(s.events, LAMBDA e : e.o = i)
Inv_C05_Events(s) ==
  /\ \A k \in 1..(Len(s.events) - 1) : s.events[k].t <= s.events[k + 1].t
  /\ \A i \in 1..Len(s.orders) :
        LET es == EventsOf(s, i)  o == s.orders[i] IN
        /\ Len(es) = 1 + o.nfills + (IF o.state = "canceled" THEN 1 ELSE 0)
        /\ es[Len(es)].info = OrderInfoOf(o)

\* C07: a rejected request leaves balances, holds, borrowed, open orders and open loans untouched
OpenLoansOf(s) == {[j |-> j, sym |-> s.loans[j].sym, amount |-> s.loans[j].amount] : j \in OpenLoanIdx(s)}

\* (stated on the observable projection of the orders, so that it can be judged on any implementation state)
ObsOrders(s) == [i \in 1..Len(s.orders) |-> ObsOrder(s.orders[i])]
Rejected_Unchanged(s, s2, c) ==
  ~c.ok => /\ s2.bal = s.bal /\ s2.hold = s.hold /\ s2.bor = s.bor
           /\ ObsOrders(s2) = ObsOrders(s)
           /\ OpenLoansOf(s2) = OpenLoansOf(s)

\* C05: monotone, final
Lifecycle_OK(s, s2) ==
  \A i \in 1..Len(s.orders) :
     LET o == s.orders[i]  o2 == s2.orders[i] IN
     /\ o2.filled >= o.filled
     /\ (~IsOpen(o) => ObsOrder(o2) = ObsOrder(o))

\* market and stop orders are closed by the first bar of their pair after acceptance
FillOrKill_OK(s2, c) ==
  c.kind = "bar" => \A i \in 1..Len(s2.orders) : LET o == s2.orders[i] IN
     (o.type \in {"market", "stop"} /\ o.pair = c.arg.p /\ o.at < c.arg.t) => ~IsOpen(o)

\* C04: price and trigger guarantees of every fill of this bar; hq = half a quote unit, in units of 1/(2*PD)
FillOK(o, o2, bar) ==
  LET dB == o2.filled - o.filled
      dQ == o2.qfilled - o.qfilled
      pd == PD(o.pair)
      \* dQ <= px*dB (+ half a unit)   <=>  2*dQ*pd <= 2*px*dB + pd
      AtMost(px)  == 2 * dQ * pd <= 2 * px * dB + pd
      AtLeast(px) == 2 * dQ * pd >= 2 * px * dB - pd
      hitBefore == o.type = "stoplimit" /\ o.stopHit
  IN dB > 0 =>
     /\ dQ > 0
     \* nobody trades better than the bar's extreme; market and stop orders trade inside the low-high range
     /\ (IF o.op = "buy" THEN AtLeast(bar.l) ELSE AtMost(bar.h))
     /\ (o.type \in {"market", "stop"} => AtLeast(bar.l) /\ AtMost(bar.h))
     /\ (o.type \in {"limit", "stoplimit"} =>
           IF o.op = "buy" THEN AtMost(o.limit) /\ bar.l <= o.limit
                           ELSE AtLeast(o.limit) /\ bar.h >= o.limit)
     /\ (o.type \in {"stop", "stoplimit"} /\ ~hitBefore =>
           IF o.op = "buy" THEN bar.h >= o.stop ELSE bar.l <= o.stop)
     /\ (o.type = "market" => IF o.op = "buy" THEN AtLeast(bar.o) ELSE AtMost(bar.o))
     /\ (o.type = "stop"   => IF o.op = "buy" THEN AtLeast(o.stop) ELSE AtMost(o.stop))

Fills_OK(s, s2, c) ==
  c.kind = "bar" => \A i \in 1..Len(s.orders) : FillOK(s.orders[i], s2.orders[i], c.arg)

\* nothing but a bar of the order's pair fills an order
OnlyBarsFill(s, s2, c) ==
  \A i \in 1..Len(s.orders) : s2.orders[i].filled # s.orders[i].filled => c.kind = "bar" /\ c.arg.p = s.orders[i].pair

\* completeness with unlimited liquidity and ample funds (ample = the reservation was accepted and nobody else
\* competes for the funds: a single open order, no lending)
\* the price an order trades at with unlimited liquidity (no slippage) in a bar that triggers it
FillPx(o, bar) ==
  CASE o.type = "market" -> bar.o
    [] o.type = "limit"  -> IF o.op = "buy" THEN (IF bar.o < o.limit THEN bar.o ELSE o.limit)
                                            ELSE (IF bar.o > o.limit THEN bar.o ELSE o.limit)
    [] o.type = "stop"   -> IF o.op = "buy" THEN (IF bar.o >= o.stop THEN bar.o ELSE o.stop)
                                            ELSE (IF bar.o <= o.stop THEN bar.o ELSE o.stop)
    [] OTHER -> bar.o
\* "dust": the traded quote amount would round to zero at the quote precision
Dust(o, bar) == RHE((o.amount - o.filled) * FillPx(o, bar), PD(o.pair)) = 0
\* "funds permitting" for a sell: the reservation covers the base amount, but the fee (e.g. a minimum fee larger than small
\* proceeds) is paid from the proceeds plus whatever quote funds are available
SellAffordable(s, o, bar) ==
  LET q == RHE((o.amount - o.filled) * FillPx(o, bar), PD(o.pair)) IN
  o.op = "sell" => q + Avail(s, QuoteOf(o.pair)) + o.holdRem[QuoteOf(o.pair)] >= FeeDelta(o.pair, o.qfilled, o.fee, q)
MustComplete(s, o, bar) ==
  \/ (o.type = "market" /\ (o.op = "sell" \/ (s.last[o.pair] > 0 /\ bar.o <= s.last[o.pair])))
  \/ (o.type = "limit" /\ (IF o.op = "buy" THEN bar.l <= o.limit ELSE bar.h >= o.limit))
  \/ (o.type = "stop" /\ o.op = "sell" /\ bar.l <= o.stop)
\* (one open order of the bar's pair: it does not compete for the bar, and its own reservation pays for it -- open orders
\* of other pairs are not touched by this bar)
CompleteScope(s, c) == /\ c.kind = "bar" /\ C.liqMode = "inf" /\ C.lendMode = "none"
                       /\ Cardinality({i \in OpenOrderIdx(s) : s.orders[i].pair = c.arg.p}) = 1
Complete_OK(s, s2, c) ==
  CompleteScope(s, c) =>
    \A i \in OpenOrderIdx(s) : LET o == s.orders[i]  o2 == s2.orders[i]  bar == c.arg IN
      (o.pair = bar.p /\ o.at < bar.t /\ MustComplete(s, o, bar) /\ ~Dust(o, bar) /\ SellAffordable(s, o, bar)) => o2.state = "completed"
\* the same for fills whose quote amount rounds to zero: the exchange ignores such fills (known finding KF-1)
CompleteDust_OK(s, s2, c) ==
  CompleteScope(s, c) =>
    \A i \in OpenOrderIdx(s) : LET o == s.orders[i]  o2 == s2.orders[i]  bar == c.arg IN
      (o.pair = bar.p /\ o.at < bar.t /\ MustComplete(s, o, bar) /\ Dust(o, bar) /\ SellAffordable(s, o, bar)) => o2.state = "completed"

\* C08: liquidity cap of the bar
LiquidityCap_OK(s, s2, c) ==
  (c.kind = "bar" /\ C.liqMode = "share") =>
     FoldSeq(LAMBDA i, acc : acc + (IF s.orders[i].pair = c.arg.p THEN s2.orders[i].filled - s.orders[i].filled ELSE 0),
             0, [i \in 1..Len(s.orders) |-> i]) * LD <= LiqTotalN(c.arg)

\* C10: a granted loan implies the margin requirement in the post-state
NewOpenLoans(s, s2) == {j \in (Len(s.loans) + 1)..Len(s2.loans) : s2.loans[j].open}

Granted_OK(s, s2, c) ==
  (c.kind \in {"create_loan", "create_order"} /\ NewOpenLoans(s, s2) # {}) => MarginRequirementMet(s2)

\* C11: why loans close, what a repayment debits
\* (what a loan shows, without the time-dependent outstanding interest)
ObsLoanFixed(l) == [open |-> l.open, sym |-> l.sym, amount |-> l.amount, paid |-> l.paid]
\* an open loan has paid nothing yet (interest is paid when the loan is repaid); amounts are positive, payments non-negative
Inv_C11_OpenUnpaid(s) ==
  \A j \in 1..Len(s.loans) : LET l == s.loans[j] IN
     /\ l.amount > 0 /\ (l.open => l.paid = D0) /\ \A x \in Syms : l.paid[x] >= 0
LoanClosure_OK(s, s2, c) ==
  /\ \A j \in 1..Len(s.loans) :
        LET l == s.loans[j]  l2 == s2.loans[j] IN
        /\ (~l.open => ObsLoanFixed(l2) = ObsLoanFixed(l))                \* closed loans never change
        /\ (l.open /\ ~l2.open =>
              \/ c.kind = "repay_loan" /\ c.arg = j /\ c.ok
                 /\ l2.paid = Only(l.c.isym, InterestOf(s, l, s.clock))
                 /\ s2.bal = Plus(s.bal, Plus(Only(l.sym, -l.amount), Neg(l2.paid)))
                 /\ s2.bor = Plus(s.bor, Only(l.sym, -l.amount))
              \/ c.kind \in {"bar", "cancel_order"}
                 /\ \E i \in 1..Len(s2.orders) : LET o == s2.orders[i] IN
                       /\ o.ar /\ o.filled > 0 /\ ~IsOpen(o) /\ j \in o.loans
                       /\ (i > Len(s.orders) \/ IsOpen(s.orders[i]))
                       /\ l.sym = (IF o.op = "buy" THEN BaseOf(o.pair) ELSE QuoteOf(o.pair))
                 /\ l2.paid[l.c.isym] = InterestOf(s2, l, s2.clock))
  /\ \A j \in (Len(s.loans) + 1)..Len(s2.loans) :                          \* created and closed in one step: rollback
        ~s2.loans[j].open => c.kind = "create_order" /\ ~c.ok /\ s2.loans[j].paid = D0
  /\ (c.kind = "repay_loan" /\ c.ok => ~s2.loans[c.arg].open)
================================================================================
