------------------------------- MODULE WireFormat -------------------------------
(***************************************************************************)
(* How decimals must cross the wire (C17): plain fixed-point notation with *)
(* exactly the caller's numeric value, and how exchange payloads decode.   *)
(* A decimal is (coef, exp): coef * 10^exp with coef > 0.                  *)
(*   PyStr : what Python's str(Decimal) produces (scientific notation when *)
(*           exp > 0 or the adjusted exponent < -6)                        *)
(*   Plain : fixed-point                                                   *)
(* Timestamps: milliseconds / microseconds since the epoch -> (seconds,    *)
(* microseconds).  Statuses: the documented alphabets -> open / closed.    *)
(***************************************************************************)
EXTENDS Integers, Sequences, TLC

RECURSIVE Pow10(_)
Pow10(n) == IF n = 0 THEN 1 ELSE 10 * Pow10(n - 1)
RECURSIVE NDigits(_)
NDigits(n) == IF n < 10 THEN 1 ELSE 1 + NDigits(n \div 10)
RECURSIVE Zeros(_)
Zeros(n) == IF n <= 0 THEN "" ELSE "0" \o Zeros(n - 1)
\* decimal digits of n left-padded with zeros to width w
Pad(n, w) == Zeros(w - NDigits(n)) \o ToString(n)

\* decimal digits of n as a sequence of one-character strings
RECURSIVE Digits(_)
Digits(n) == IF n < 10 THEN <<ToString(n)>> ELSE Append(Digits(n \div 10), ToString(n % 10))
RECURSIVE Join(_)
Join(cs) == IF cs = <<>> THEN "" ELSE Head(cs) \o Join(Tail(cs))
\* fixed-point text of coef * 10^exp, keeping trailing zeros of the coefficient (what format(d, "f") prints);
\* written on digit sequences so that no large power of ten is ever computed (TLC integers are 32 bit)
Plain(coef, exp) ==
  LET ds == Digits(coef)  n == Len(ds)  k == 0 - exp IN
  IF exp >= 0 THEN Join(ds) \o Zeros(exp)
  ELSE IF n > k THEN Join(SubSeq(ds, 1, n - k)) \o "." \o Join(SubSeq(ds, n - k + 1, n))
  ELSE "0." \o Zeros(k - n) \o Join(ds)
\* Python's Decimal.__str__ switches to scientific notation when exp > 0 or the adjusted exponent < -6
UsesExponent(coef, exp) == exp > 0 \/ (exp + NDigits(coef) - 1) < (0 - 6)

\* rec: the decimal the caller passed, normalised (coef, exp), the text the exchange received, and that text parsed back
\* and normalised by the harness (got_coef, got_exp); plain_text = the text matches [0-9]+(\.[0-9]+)?
C17_Plain(rec) == rec.plain_text /\ rec.coef = rec.got_coef /\ rec.exp = rec.got_exp
C17_ExactText(rec) == rec.text = Plain(rec.raw_coef, rec.raw_exp)

\* timestamps: the payload value is given in limbs (days since the epoch, second of the day, milli- or microseconds)
\* because it does not fit TLC's 32-bit integers; decoded = what the wrapper object returned, in the same limbs
C17_Timestamp(rec) ==
  /\ rec.got_days = rec.days /\ rec.got_sec = rec.sec
  /\ rec.got_usec = (IF rec.unit = "ms" THEN rec.frac * 1000 ELSE rec.frac)
  /\ rec.got_utc
\* statuses
BinanceOpen == {"NEW", "PARTIALLY_FILLED", "PENDING_CANCEL"}
BinanceClosed == {"FILLED", "CANCELED", "REJECTED", "EXPIRED"}
BinanceOcoOpen == {"EXECUTING"}
BinanceOcoClosed == {"ALL_DONE", "REJECT"}
BitstampOpen == {"Open"}
BitstampClosed == {"Finished", "Expired", "Canceled"}
ExpectedOpen(kind, status) ==
  CASE kind = "binance" -> status \in BinanceOpen
    [] kind = "binance_oco" -> status \in BinanceOcoOpen
    [] kind = "bitstamp" -> status \in BitstampOpen
\* operation, pair and order type select the documented endpoint, side and symbol
ExpectedPath(r) ==
  CASE r.exchange = "binance_spot" -> IF r.type = "OCO" THEN "/api/v3/order/oco" ELSE "/api/v3/order"
    [] r.exchange = "binance_margin" -> IF r.type = "OCO" THEN "/sapi/v1/margin/order/oco" ELSE "/sapi/v1/margin/order"
    [] r.exchange = "bitstamp" ->
         IF r.type = "MARKET" THEN "/api/v2/" \o r.action \o "/market/" \o r.lpair \o "/"
         ELSE IF r.type = "INSTANT" THEN "/api/v2/" \o r.action \o "/instant/" \o r.lpair \o "/"
         ELSE "/api/v2/" \o r.action \o "/" \o r.lpair \o "/"
\* options left unset are omitted: the parameter names on the wire are exactly the mandatory ones, the ones the caller
\* supplied, and the documented companions / defaults (time in force of limit-type orders, the time in force that goes
\* with a stop limit price, the margin account flags, Bitstamp's amount_in_counter of instant orders)
ToSetW(sq) == {sq[k] : k \in DOMAIN sq}
ExpectedNames(r) ==
  LET given == ToSetW(r.given) IN
  IF r.exchange = "bitstamp" THEN given \cup (IF r.type = "INSTANT" THEN {"amount_in_counter"} ELSE {})
  ELSE {"symbol", "side", "timestamp", "signature"} \cup given
       \cup (IF r.type # "OCO" THEN {"type"} ELSE {})
       \cup (IF r.type \in {"LIMIT", "STOP_LOSS_LIMIT"} THEN {"timeInForce"} ELSE {})
       \cup (IF "stopLimitPrice" \in given THEN {"stopLimitTimeInForce"} ELSE {})
       \cup (IF r.exchange = "binance_margin" THEN {"isIsolated", "sideEffectType"} ELSE {})
C17_OmitUnset(r) == r.unexpected = <<>> /\ ToSetW(r.got_names) = ExpectedNames(r)
C17_Endpoint(r) ==
  /\ r.got_path = ExpectedPath(r)
  /\ (r.exchange # "bitstamp" => r.got_symbol = r.upair /\ r.got_side = r.side /\ r.got_type = r.wire_type)
  /\ (r.exchange = "bitstamp" => r.action = (IF r.side = "BUY" THEN "buy" ELSE "sell"))
\* totals a wrapper accumulates over several payload entries (fees per asset over the trades of an order, filled amounts
\* over its transactions): the decoded total is the exact sum.  addends: <<coef, exp>> normalised; compared at the
\* smallest exponent present
MinExp(adds, ge) == LET S == {adds[i][2] : i \in 1..Len(adds)} \cup {ge} IN CHOOSE m \in S : \A x \in S : m <= x
RECURSIVE SumAt(_, _, _)
SumAt(adds, i, m) == IF i > Len(adds) THEN 0 ELSE adds[i][1] * Pow10(adds[i][2] - m) + SumAt(adds, i + 1, m)
C17_PayloadSum(rec) ==
  LET nz == SelectSeq(rec.addends, LAMBDA a : a[1] # 0)
      m == MinExp(nz, IF rec.got_coef = 0 THEN (IF Len(nz) = 0 THEN 0 ELSE nz[1][2]) ELSE rec.got_exp) IN
  rec.got_coef >= 0 /\ rec.got_coef * Pow10((IF rec.got_coef = 0 THEN m ELSE rec.got_exp) - m) = SumAt(nz, 1, m)
C17_Status(rec) == rec.decoded /\ rec.is_open = ExpectedOpen(rec.skind, rec.status)
================================================================================
