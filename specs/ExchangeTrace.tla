----------------------------- MODULE ExchangeTrace -----------------------------
(***************************************************************************)
(* Validation of traces recorded from the real backtesting exchange        *)
(* (harness/exch_impl.py) against ExchangeCore / ExchangeProps.            *)
(*                                                                         *)
(* Input (ndjson, one trace per line):                                     *)
(*   {id, cfg, steps:[{kind,arg,ok,err,obs,...}], events:[..], complete}   *)
(* For every step the spec successor of the current (implementation-       *)
(* synchronised) state is computed, compared with the logged observables   *)
(* (clauses Step_..), the logged observables are overlaid on the spec's     *)
(* hidden variables and every property predicate is evaluated on that      *)
(* implementation state / step (clauses Inv_.. and Act_..).  The validator is   *)
(* total: it never blocks, records the failing clauses per step and prints *)
(* one verdict per trace.                                                  *)
(***************************************************************************)
EXTENDS Integers, Sequences, FiniteSets, TLC, Json, IOUtils

Traces == ndJsonDeserialize(IOEnv.TRACE_FILE)

VARIABLES tid, l, S, viol, dead
vars == <<tid, l, S, viol, dead>>

P(t) == INSTANCE ExchangeProps WITH C <- Traces[t].cfg

ToSet(q) == {q[k] : k \in DOMAIN q}
Min2(x, y) == IF x <= y THEN x ELSE y

Init == /\ tid = 1 /\ l = 1 /\ viol = {} /\ dead = FALSE
        /\ S = IF Len(Traces) > 0 THEN P(1)!Init0 ELSE <<>>

\* spec successor for a logged step
SpecStep(t, s, ev) ==
  CASE ev.kind = "bar"             ->
         [ok |-> TRUE, err |-> "",
          s |-> IF Traces[t].cfg.impact
                THEN P(t)!BarH(s, ev.arg, [on |-> TRUE, f |-> [i \in 1..Len(ev.obs.orders) |-> ev.obs.orders[i].filled],
                                                        q |-> [i \in 1..Len(ev.obs.orders) |-> ev.obs.orders[i].qfilled]])
                ELSE P(t)!Bar(s, ev.arg)]
    [] ev.kind = "create_order"    -> P(t)!CreateOrder(s, ev.arg)
    [] ev.kind = "cancel_order"    -> P(t)!CancelOrder(s, ev.arg)
    [] ev.kind = "create_loan"     -> P(t)!CreateLoanI(s, ev.arg.sym, ev.arg.amount)
    [] ev.kind = "repay_loan"      -> P(t)!RepayLoanI(s, ev.arg, "repay")
    [] ev.kind = "set_cond"        -> [ok |-> TRUE, err |-> "", s |-> P(t)!SetCond(s, ev.arg.sym, ev.arg.which)]
    [] ev.kind = "get_open_orders" -> [ok |-> TRUE, err |-> "", s |-> P(t)!TouchN(s, ev.arg)]

\* an order record for a request the implementation accepted although the spec refused it
ForcedOrder(t, s, r) ==
  [type |-> r.type, op |-> r.op, pair |-> r.pair, amount |-> r.amount, limit |-> r.limit, stop |-> r.stop,
   filled |-> 0, qfilled |-> 0, fee |-> 0, feeB |-> 0, state |-> "open", ab |-> r.ab, ar |-> r.ar, loans |-> {},
   holdRem |-> P(t)!Required(s, r), stopHit |-> FALSE, at |-> s.clock, nfills |-> 0, lastFill |-> 0]

\* the implementation state: logged observables over the spec's hidden variables
Overlay(t, pre, post, ev) ==
  LET ob == ev.obs
      no == Len(ob.orders)
      nl == Len(ob.loans)
      ord(i) == LET base == IF i <= Len(post.orders) THEN post.orders[i] ELSE ForcedOrder(t, pre, ev.arg)
                    x == ob.orders[i] IN
                [base EXCEPT !.state = x.state, !.filled = x.filled, !.qfilled = x.qfilled, !.fee = x.fee, !.feeB = x.feeB,
                             !.loans = ToSet(x.loans),
                             !.nfills = IF i <= Len(pre.orders) /\ x.filled > pre.orders[i].filled
                                        THEN pre.orders[i].nfills + 1
                                        ELSE IF i <= Len(pre.orders) THEN pre.orders[i].nfills ELSE 0]
      loan(j) == LET x == ob.loans[j]
                     base == IF j <= Len(post.loans) THEN post.loans[j]
                             ELSE [sym |-> x.sym, amount |-> x.amount, at |-> post.clock, open |-> TRUE,
                                   paid |-> P(t)!D0, cause |-> "none", c |-> post.cond[x.sym]] IN
                 [base EXCEPT !.open = x.open, !.paid = x.paid, !.sym = x.sym, !.amount = x.amount]
  IN [post EXCEPT !.bal = ob.bal, !.hold = ob.hold, !.bor = ob.bor,
                  !.orders = [i \in 1..no |-> ord(i)],
                  !.loans = [j \in 1..nl |-> loan(j)],
                  !.openIdx = SelectSeq(post.openIdx, LAMBDA i : i <= no)
                              \o (IF no > Len(post.orders) THEN <<no>> ELSE <<>>)]

\* is the overlay well defined?  (more than one unexplained order, or an order appearing outside create_order)
Structural(pre, post, ev) ==
  /\ Len(ev.obs.orders) <= Len(post.orders) + (IF ev.kind = "create_order" THEN 1 ELSE 0)
  /\ Len(ev.obs.orders) >= Len(pre.orders)
  /\ Len(ev.obs.loans) >= Len(pre.loans)
  /\ \A i \in 1..Len(ev.obs.orders) : ev.obs.orders[i].amountOk

StepClauses(t, pre, ev) ==
  LET r    == SpecStep(t, pre, ev)
      post == r.s
      ob   == ev.obs
      so   == P(t)!Obs(post)
      c    == [kind |-> ev.kind, arg |-> ev.arg, ok |-> ev.ok, err |-> ev.err]
      okStruct == Structural(pre, post, ev)
      I    == IF okStruct THEN Overlay(t, pre, post, ev) ELSE post
      sameOrders == Len(ob.orders) = Len(post.orders)
      sameLoans  == Len(ob.loans) = Len(post.loans)
      Cl(name, cond) == IF cond THEN {} ELSE {name}
      closedNow(a, b) == {j \in 1..Min2(Len(a.loans), Len(b.loans)) : a.loans[j].open /\ ~b.loans[j].open}
  IN
  \* ---- conformance with the spec's successor (Step_..) -------------------------------------------------
     Cl("Step_Structure", okStruct)
     \cup Cl("Step_Outcome", r.ok = ev.ok)
     \cup Cl("Step_ErrClass", r.ok # ev.ok \/ r.err = ev.err)
     \cup Cl("Step_Outcome_NoBorrow", ~(ev.kind = "create_order" /\ ~ev.arg.ab) \/ r.ok = ev.ok)
     \cup Cl("Step_Balances", ob.bal = so.bal /\ ob.bor = so.bor)
     \cup Cl("Step_Holds", ob.hold = so.hold)
     \cup Cl("Step_BidAsk", \A p \in 1..Len(ob.bidask) : ob.bidask[p] = <<0 - 1, 0 - 1>> \/ ob.bidask[p] = so.bidask[p])
     \cup Cl("Step_Orders", sameOrders /\ \A i \in 1..Min2(Len(ob.orders), Len(post.orders)) :
                 LET x == ob.orders[i]  y == so.orders[i] IN
                 x.state = y.state /\ x.filled = y.filled /\ x.qfilled = y.qfilled /\ x.fee = y.fee /\ x.feeB = y.feeB
                 /\ ToSet(x.loans) = y.loans)
     \cup Cl("Step_FillOrKill_ShouldFill",
             ~(ev.kind = "bar") \/ Traces[t].cfg.impact \/ \A i \in 1..Min2(Len(ob.orders), Len(post.orders)) :
                 (post.orders[i].type \in {"market", "stop"} /\ i <= Len(pre.orders) /\ pre.orders[i].state = "open"
                  /\ so.orders[i].state = "completed") => ob.orders[i].state = "completed")
     \cup Cl("Step_Loans", sameLoans /\ \A j \in 1..Min2(Len(ob.loans), Len(post.loans)) :
                 LET x == ob.loans[j]  y == so.loans[j] IN
                 x.open = y.open /\ x.sym = y.sym /\ x.amount = y.amount /\ x.paid = y.paid)
     \cup Cl("Step_OutInt", \A j \in 1..Min2(Len(ob.loans), Len(post.loans)) :
                 (ob.loans[j].open /\ so.loans[j].open) => (ob.loans[j].outInt = so.loans[j].outInt /\ ~ob.loans[j].outOther))
     \cup Cl("Step_AutoRepay", ~(ev.kind \in {"bar", "cancel_order"}) \/ ~okStruct \/ closedNow(pre, I) = closedNow(pre, post))
     \cup Cl("Step_OpenList", ev.kind # "get_open_orders" \/ (ev.openList = so.openList /\ ev.perPairOk))
  \* ---- property predicates on the implementation's own state and step ---------------------------------
     \cup Cl("Obs_TotalIsAvailPlusHoldMinusBorrowed", ob.totalOk)
     \cup Cl("Obs_DecimalContextUntouched", ob.ctxOk)      \* process-wide arithmetic (decimal context) as the exchange found it
     \cup Cl("Obs_Listings", ob.listingOk)
     \cup Cl("Obs_LoanListings", ob.loanListingOk)
     \cup Cl("Obs_Grid", ob.offgrid = <<>>)
     \cup Cl("Obs_FeesOnlyInQuote", \A i \in 1..Len(ob.orders) : ~ob.orders[i].feeOther)
     \cup Cl("Obs_Remaining", \A i \in 1..Min2(Len(ob.orders), Len(I.orders)) :
                 ob.orders[i].remaining = I.orders[i].amount - ob.orders[i].filled)
     \cup (IF ~okStruct THEN {} ELSE
           Cl("Inv_C01_Conservation", P(t)!Inv_C01_Conservation(I))
           \cup Cl("Inv_C02_NonNegative", P(t)!Inv_C02_NonNegative(I))
           \cup Cl("Inv_C02_BorrowedIsOpenPrincipal", P(t)!Inv_C02_BorrowedIsOpenPrincipal(I))
           \cup Cl("Inv_C05_OrderShape", P(t)!Inv_C05_OrderShape(I))
           \cup Cl("Inv_C06_HoldIsSumOfOpen", P(t)!Inv_C06_HoldIsSumOfOpen(I))
           \cup Cl("Inv_C06_NoOpenNoHold", P(t)!Inv_C06_NoOpenNoHold(I))
           \cup Cl("Inv_C06_HoldLeBalance", P(t)!Inv_C06_HoldLeBalance(I))
           \cup Cl("Inv_C09_TotalFee", P(t)!Inv_C09_TotalFee(I))
           \cup Cl("Inv_C11_OpenUnpaid", P(t)!Inv_C11_OpenUnpaid(I))
           \cup Cl("Inv_C10_NoLendingNoLoans", Traces[t].cfg.lendMode # "none" \/ Len(I.loans) = 0)
           \* (obsBroken: after a REJECTED request the account could no longer be listed the way it could just before)
           \cup Cl("Act_C07_RejectedUnchanged", P(t)!Rejected_Unchanged(pre, I, c) /\ ~(~ev.ok /\ ev.obsBroken))
           \cup Cl("Act_C05_Lifecycle", P(t)!Lifecycle_OK(pre, I))
           \cup Cl("Act_C05_FillOrKill", P(t)!FillOrKill_OK(I, c))
           \cup Cl("Act_C04_FillOK", P(t)!Fills_OK(pre, I, c))
           \cup Cl("Act_C04_OnlyBarsFill", P(t)!OnlyBarsFill(pre, I, c))
           \cup Cl("Act_C04_Complete", P(t)!Complete_OK(pre, I, c))
           \cup Cl("Act_C04_CompleteDust", P(t)!CompleteDust_OK(pre, I, c))
           \cup Cl("Act_C08_LiquidityCap", P(t)!LiquidityCap_OK(pre, I, c))
           \cup Cl("Act_C10_GrantedImpliesMargin", P(t)!Granted_OK(pre, I, c))
           \cup Cl("Act_C11_LoanClosure", P(t)!LoanClosure_OK(pre, I, c)))

NextState(t, pre, ev) ==
  LET r == SpecStep(t, pre, ev) IN
  IF Structural(pre, r.s, ev) THEN Overlay(t, pre, r.s, ev) ELSE r.s

\* end of trace: the events the subscriber received
EndClauses(t, s, tr) ==
  LET evs  == [k \in 1..Len(tr.events) |->
                 [t |-> tr.events[k].t, o |-> tr.events[k].o,
                  info |-> [tr.events[k].info EXCEPT !.loans = ToSet(@)]]]
      Cl(name, cond) == IF cond THEN {} ELSE {name}
  IN Cl("End_Complete", tr.complete \/ tr.truncated)
     \cup (IF ~tr.complete THEN {} ELSE
           Cl("End_EventsMatchSpec", evs = s.events)
           \cup Cl("Inv_C05_Events", P(t)!Inv_C05_Events([s EXCEPT !.events = evs])))

Step ==
  /\ tid <= Len(Traces)
  /\ LET tr == Traces[tid] IN
     IF l <= Len(tr.steps) /\ ~dead THEN
        LET ev  == tr.steps[l]
            bad == StepClauses(tid, S, ev)
        IN /\ viol' = viol \cup {<<l, c>> : c \in bad}
           /\ dead' = ("Step_Structure" \in bad)
           /\ S' = NextState(tid, S, ev)
           /\ l' = l + 1 /\ tid' = tid
     ELSE /\ LET fin == IF dead THEN {} ELSE {<<Len(tr.steps) + 1, c>> : c \in EndClauses(tid, S, tr)} IN
             PrintT("@@" \o ToJson([id |-> tr.id, steps |-> Len(tr.steps), judged |-> l - 1, dead |-> dead,
                                    viol |-> {[step |-> v[1], clause |-> v[2]] : v \in viol \cup fin}]))
          /\ tid' = tid + 1 /\ l' = 1 /\ viol' = {} /\ dead' = FALSE
          /\ S' = IF tid + 1 <= Len(Traces) THEN P(tid + 1)!Init0 ELSE S
          /\ TLCSet(1, tid)
Spec == Init /\ [][Step]_vars
AllConsumed == TLCGet(1) = Len(Traces)
================================================================================
