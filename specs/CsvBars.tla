-------------------------------- MODULE CsvBars --------------------------------
(***************************************************************************)
(* CSV bar sources (basana/core/event_sources/csv.py, external/common/csv/ *)
(* bars.py RowParser): what the source must yield for a file, as a         *)
(* function of its rows.                                                   *)
(*   rows   : sequence of [t, o, h, l, c, v]  (t = start of the bar, ticks; *)
(*            prices/volume integers in file units)                         *)
(*   sort   : events are sorted by time (stable) when requested             *)
(*   period : bar period in ticks; the event time is t + period             *)
(* A row whose OHLC is inconsistent must be refused (the source raises).    *)
(***************************************************************************)
EXTENDS Integers, Sequences, FiniteSets, SequencesExt

RowValid(r) == r.l <= r.o /\ r.l <= r.c /\ r.o <= r.h /\ r.c <= r.h
EventOf(r, period) == [when |-> r.t + period, t |-> r.t, o |-> r.o, h |-> r.h, l |-> r.l, c |-> r.c, v |-> r.v]
NonZero(rows) == SelectSeq(rows, LAMBDA r : r.v # 0)
\* stable insertion sort by event time
RECURSIVE Insert(_, _)
Insert(s, e) == IF s = <<>> THEN <<e>>
                ELSE IF s[Len(s)].when <= e.when THEN Append(s, e)
                ELSE Append(Insert(SubSeq(s, 1, Len(s) - 1), e), s[Len(s)])
RECURSIVE SortStable(_)
SortStable(s) == IF s = <<>> THEN <<>> ELSE Insert(SortStable(SubSeq(s, 1, Len(s) - 1)), s[Len(s)])
\* first row (in file order, zero-volume rows are skipped before validation) that must be refused; 0 = none
FirstInvalid(rows) == LET nz == NonZero(rows)  bad == {i \in 1..Len(nz) : ~RowValid(nz[i])} IN
                      IF bad = {} THEN 0 ELSE CHOOSE i \in bad : \A j \in bad : i <= j
Expected(rows, sort, period) ==
  LET evs == [i \in 1..Len(NonZero(rows)) |-> EventOf(NonZero(rows)[i], period)] IN
  IF sort THEN SortStable(evs) ELSE evs

(* predicates over a recorded run  tr = [rows, sort, period, events, error] *)
C19_RowToBar(tr) ==
  \* one event per non-zero-volume row carrying exactly its values, stamped start + period
  FirstInvalid(tr.rows) = 0 =>
     /\ ~tr.error
     /\ Len(tr.events) = Len(NonZero(tr.rows))
     /\ \A i \in 1..Len(tr.events) :
          \E j \in 1..Len(NonZero(tr.rows)) : tr.events[i] = EventOf(NonZero(tr.rows)[j], tr.period)
     /\ tr.events = Expected(tr.rows, tr.sort, tr.period)
C19_Sorted(tr) == (tr.sort /\ ~tr.error) => \A i \in 1..(Len(tr.events) - 1) : tr.events[i].when <= tr.events[i + 1].when
C19_CsvBarValid(tr) ==
  /\ \A i \in 1..Len(tr.events) : RowValid(tr.events[i])
  /\ (FirstInvalid(tr.rows) # 0 => tr.error)               \* an inconsistent row is refused
CsvClauses == <<"C19_RowToBar", "C19_Sorted", "C19_CsvBarValid">>
CsvHolds(tr, c) == CASE c = "C19_RowToBar" -> C19_RowToBar(tr) [] c = "C19_Sorted" -> C19_Sorted(tr)
                     [] c = "C19_CsvBarValid" -> C19_CsvBarValid(tr)
CsvFailing(tr) == {CsvClauses[k] : k \in {i \in 1..Len(CsvClauses) : ~CsvHolds(tr, CsvClauses[i])}}
================================================================================
